//! Glue between the libFuzzer targets (/verif/fuzz) and the property oracles.
//! The semantic oracle runs inside the target: a violated property panics, which libFuzzer
//! records as a crash artifact; the artifact is then re-judged by the deterministic harness.
use crate::cases::{Case, WireCase};
use crate::choices::Choices;
use crate::engine::{self, Property, Stats};
use std::sync::OnceLock;

struct Ctx {
    props: Vec<Box<dyn Property>>,
}

fn ctx(default_ids: &[&str]) -> &'static Ctx {
    static C: OnceLock<Ctx> = OnceLock::new();
    C.get_or_init(|| {
        crate::refmodel::self_check();
        crate::exec::install_panic_hook();
        crate::exec::install_logger();
        let dir = std::path::PathBuf::from(std::env::var("VERIF_DIR").unwrap_or_else(|_| "/verif".into()));
        let findings = engine::load_findings(&dir);
        engine::set_known(findings.iter().filter(|f| f.status == "known").map(|f| f.signature.clone()).collect());
        let ids: Vec<String> = match std::env::var("ENR_FUZZ_PROPS") {
            Ok(s) if !s.trim().is_empty() => s.split(',').map(|x| x.trim().to_string()).collect(),
            _ => default_ids.iter().map(|s| s.to_string()).collect(),
        };
        Ctx { props: ids.iter().filter_map(|i| crate::props::by_id(i)).collect() }
    })
}

fn judge(c: &Ctx, case: &Case) {
    let mut st = Stats::default();
    for p in &c.props {
        if let Err(m) = p.check(case, &mut st) {
            panic!("PROPERTY {} VIOLATED: {}", p.id(), m);
        }
    }
}

pub const RAW_PROPS: [&str; 6] = ["C01", "C02", "C03", "C04", "C11", "C13"];
pub const STRUCT_PROPS: [&str; 6] = ["C01", "C02", "C04", "C11", "C12", "C13"];
pub const HIST_PROPS: [&str; 10] = ["C03", "C04", "C05", "C06", "C07", "C08", "C09", "C10", "C14", "C15"];

pub fn raw_case(data: &[u8]) -> Case {
    Case::Wire(WireCase { bytes: data.to_vec(), label: "fuzz-raw".into(), has_custom: false })
}

/// the cases a `wire_struct` entropy string stands for, per property
pub fn struct_case(id: &str, data: &[u8]) -> Option<Case> {
    let p = crate::props::by_id(id)?;
    Some(p.gen(&mut Choices::new(data)))
}

pub fn hist_case(data: &[u8]) -> Case {
    Case::Hist(crate::gen::history::gen_history(&mut Choices::new(data), None))
}

pub fn run_raw(data: &[u8]) {
    let c = ctx(&RAW_PROPS);
    let case = raw_case(data);
    let mut st = Stats::default();
    for p in &c.props {
        let r = if p.id() == "C13" {
            // prefix locality on raw bytes: the first complete item followed by the rest
            match crate::refmodel::rlp::header_at(data) {
                Ok((_, h, n)) if h + n <= data.len() => p.check(
                    &Case::Stream(crate::cases::StreamCase { items: vec![data[..h + n].to_vec()], suffix: data[h + n..].to_vec(), as_list: false, label: "fuzz-raw".into() }),
                    &mut st,
                ),
                _ => Ok(()),
            }
        } else {
            p.check(&case, &mut st)
        };
        if let Err(m) = r {
            panic!("PROPERTY {} VIOLATED: {}", p.id(), m);
        }
    }
}

pub fn run_struct(data: &[u8]) {
    let c = ctx(&STRUCT_PROPS);
    let mut st = Stats::default();
    for p in &c.props {
        let case = p.gen(&mut Choices::new(data));
        if let Err(m) = p.check(&case, &mut st) {
            panic!("PROPERTY {} VIOLATED: {}", p.id(), m);
        }
    }
}

pub fn run_history(data: &[u8]) {
    let c = ctx(&HIST_PROPS);
    judge(c, &hist_case(data));
}
