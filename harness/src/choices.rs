//! Choice source: generators draw every decision from a byte string ("entropy").
//! Exhausted entropy yields zeros, and every mapping is monotone in the byte value, so that a
//! shorter / smaller entropy gives a simpler case (this is what proptest shrinks and libFuzzer
//! mutates).
pub struct Choices<'a> {
    data: &'a [u8],
    pos: usize,
}

impl<'a> Choices<'a> {
    pub fn new(data: &'a [u8]) -> Self {
        Choices { data, pos: 0 }
    }
    pub fn exhausted(&self) -> bool {
        self.pos >= self.data.len()
    }
    pub fn consumed(&self) -> usize {
        self.pos
    }
    pub fn u8(&mut self) -> u8 {
        let b = self.data.get(self.pos).copied().unwrap_or(0);
        self.pos += 1;
        b
    }
    pub fn u16(&mut self) -> u16 {
        (self.u8() as u16) << 8 | self.u8() as u16
    }
    pub fn u32(&mut self) -> u32 {
        (self.u16() as u32) << 16 | self.u16() as u32
    }
    pub fn u64(&mut self) -> u64 {
        (self.u32() as u64) << 32 | self.u32() as u64
    }
    /// uniform-ish index in 0..n, monotone in the entropy
    pub fn below(&mut self, n: usize) -> usize {
        if n <= 1 {
            return 0;
        }
        if n <= 256 {
            (self.u8() as usize * n) >> 8
        } else {
            (self.u16() as usize * n) >> 16
        }
    }
    /// inclusive range
    pub fn range(&mut self, lo: usize, hi: usize) -> usize {
        lo + self.below(hi - lo + 1)
    }
    /// true with probability p/256; entropy 0 gives false
    pub fn chance(&mut self, p: u32) -> bool {
        (self.u8() as u32) + p >= 256
    }
    pub fn bool(&mut self) -> bool {
        self.u8() >= 128
    }
    pub fn bytes(&mut self, n: usize) -> Vec<u8> {
        (0..n).map(|_| self.u8()).collect()
    }
    pub fn arr32(&mut self) -> [u8; 32] {
        let mut a = [0u8; 32];
        for x in a.iter_mut() {
            *x = self.u8();
        }
        a
    }
    pub fn pick<'b, T>(&mut self, xs: &'b [T]) -> &'b T {
        &xs[self.below(xs.len())]
    }
}

/// splitmix64, used only to derive per-worker seeds from VERIF_SEED (never inside a property)
pub fn splitmix64(x: u64) -> u64 {
    let mut z = x.wrapping_add(0x9E3779B97F4A7C15);
    z = (z ^ (z >> 30)).wrapping_mul(0xBF58476D1CE4E5B9);
    z = (z ^ (z >> 27)).wrapping_mul(0x94D049BB133111EB);
    z ^ (z >> 31)
}

/// Deterministic pseudo-entropy for enumerated cases (a pure function of tag and index).
pub fn det_entropy(tag: &str, j: u64, len: usize) -> Vec<u8> {
    let mut h: u64 = 0xcbf29ce484222325;
    for b in tag.bytes() {
        h = (h ^ b as u64).wrapping_mul(0x100000001b3);
    }
    let mut x = splitmix64(h ^ splitmix64(j));
    let mut out = Vec::with_capacity(len);
    while out.len() < len {
        x = splitmix64(x);
        out.extend_from_slice(&x.to_le_bytes());
    }
    out.truncate(len);
    out
}
