//! hex helpers and serde adaptors (bytes are written as hex strings in replay files)
use serde::{Deserialize, Deserializer, Serializer};

pub fn hex(b: &[u8]) -> String {
    const H: &[u8; 16] = b"0123456789abcdef";
    let mut s = String::with_capacity(b.len() * 2);
    for x in b {
        s.push(H[(x >> 4) as usize] as char);
        s.push(H[(x & 15) as usize] as char);
    }
    s
}

pub fn unhex(s: &str) -> Option<Vec<u8>> {
    let b = s.as_bytes();
    if b.len() % 2 != 0 {
        return None;
    }
    let v = |c: u8| -> Option<u8> {
        match c {
            b'0'..=b'9' => Some(c - b'0'),
            b'a'..=b'f' => Some(c - b'a' + 10),
            b'A'..=b'F' => Some(c - b'A' + 10),
            _ => None,
        }
    };
    let mut out = Vec::with_capacity(b.len() / 2);
    for p in b.chunks(2) {
        out.push(v(p[0])? << 4 | v(p[1])?);
    }
    Some(out)
}

pub fn serialize<S: Serializer>(b: &Vec<u8>, s: S) -> Result<S::Ok, S::Error> {
    s.serialize_str(&hex(b))
}
pub fn deserialize<'de, D: Deserializer<'de>>(d: D) -> Result<Vec<u8>, D::Error> {
    let s = String::deserialize(d)?;
    unhex(&s).ok_or_else(|| serde::de::Error::custom("bad hex"))
}

pub mod arr32 {
    use super::*;
    pub fn serialize<S: Serializer>(b: &[u8; 32], s: S) -> Result<S::Ok, S::Error> {
        s.serialize_str(&hex(b))
    }
    pub fn deserialize<'de, D: Deserializer<'de>>(d: D) -> Result<[u8; 32], D::Error> {
        let s = String::deserialize(d)?;
        let v = unhex(&s).ok_or_else(|| serde::de::Error::custom("bad hex"))?;
        if v.len() != 32 {
            return Err(serde::de::Error::custom("need 32 bytes"));
        }
        let mut a = [0u8; 32];
        a.copy_from_slice(&v);
        Ok(a)
    }
}

pub mod vecvec {
    use super::*;
    use serde::ser::SerializeSeq;
    pub fn serialize<S: Serializer>(b: &Vec<Vec<u8>>, s: S) -> Result<S::Ok, S::Error> {
        let mut q = s.serialize_seq(Some(b.len()))?;
        for x in b {
            q.serialize_element(&hex(x))?;
        }
        q.end()
    }
    pub fn deserialize<'de, D: Deserializer<'de>>(d: D) -> Result<Vec<Vec<u8>>, D::Error> {
        let v = Vec::<String>::deserialize(d)?;
        v.iter()
            .map(|s| unhex(s).ok_or_else(|| serde::de::Error::custom("bad hex")))
            .collect()
    }
}

pub mod pairs {
    use super::*;
    use serde::ser::SerializeSeq;
    pub fn serialize<S: Serializer>(b: &Vec<(Vec<u8>, Vec<u8>)>, s: S) -> Result<S::Ok, S::Error> {
        let mut q = s.serialize_seq(Some(b.len()))?;
        for (k, v) in b {
            q.serialize_element(&(hex(k), hex(v)))?;
        }
        q.end()
    }
    pub fn deserialize<'de, D: Deserializer<'de>>(d: D) -> Result<Vec<(Vec<u8>, Vec<u8>)>, D::Error> {
        let v = Vec::<(String, String)>::deserialize(d)?;
        v.iter()
            .map(|(k, x)| {
                Ok((
                    unhex(k).ok_or_else(|| serde::de::Error::custom("bad hex"))?,
                    unhex(x).ok_or_else(|| serde::de::Error::custom("bad hex"))?,
                ))
            })
            .collect()
    }
}
