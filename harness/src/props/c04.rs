//! C04 — lossless canonical round trip between bytes, record, text and JSON.
use crate::case::*;
use crate::cases::Case;
use crate::choices::Choices;
use crate::engine::{Property, Stats};
use crate::exec::{guarded, run_history, snap, Snap, StepCx, Visitor};
use crate::gen::history;
use crate::keys::{Fam, FamId, ALL_FAMS};
use crate::libio::{self, LibOut};
use crate::props::hist::*;
use crate::refmodel::b64;
use crate::refmodel::record::{ref_decode_exact, RefOutcome, ALL_KEY_TYPES};
use crate::refmodel::rlp;
use alloy_rlp::Decodable;
use enr::Enr;
use serde_json::json;

pub struct C04;

/// every representation of `e` decodes back to an equal record with identical observable fields
pub fn round_trips<K: Fam>(e: &Enr<K>, s: &Snap) -> Result<(), String> {
    let same = |what: &str, r: Result<Enr<K>, String>| -> Result<(), String> {
        let e2 = r.map_err(|m| format!("{what} does not decode back: {m}"))?;
        if e2 != *e {
            return Err(format!("{what} decodes to a record that is not == the original"));
        }
        let s2 = snap(&e2);
        if s2 != *s {
            return Err(format!("{what} decodes to a record with different observable fields"));
        }
        Ok(())
    };
    let bytes = s.enc.clone();
    let c = e.clone();
    if c != *e || snap(&c) != *s {
        return Err("clone() differs from the original in an observable field".into());
    }
    same("encode()", guarded(|| Enr::<K>::decode(&mut bytes.as_slice()).map_err(|e| format!("{e:?}"))).map_err(|p| format!("panic {p}"))?)?;
    let text = guarded(|| e.to_base64()).map_err(|p| format!("to_base64 panicked: {p}"))?;
    let want_text = format!("enr:{}", b64::encode(&bytes));
    if text != want_text {
        return Err(format!("to_base64() is not 'enr:' + unpadded URL-safe base64 of the encoding: {text}"));
    }
    same("to_base64()", guarded(|| text.parse::<Enr<K>>()).map_err(|p| format!("panic {p}"))?)?;
    let disp = format!("{e}");
    same("Display", guarded(|| disp.parse::<Enr<K>>()).map_err(|p| format!("panic {p}"))?)?;
    let js = serde_json::to_string(e).map_err(|x| format!("serialize: {x}"))?;
    same("JSON", guarded(|| serde_json::from_str::<Enr<K>>(&js).map_err(|x| x.to_string())).map_err(|p| format!("panic {p}"))?)?;
    // the Encodable impl as a whole: length() agrees with encode(), and a list of records encoded by
    // alloy-rlp (which frames the list from length()) decodes back to the same records
    let l = guarded(|| alloy_rlp::Encodable::length(e)).map_err(|p| format!("length() panicked: {p}"))?;
    if l != bytes.len() {
        return Err(format!("Encodable::length() = {l} but encode() produces {} bytes", bytes.len()));
    }
    let two = vec![e.clone(), e.clone()];
    let list = guarded(|| alloy_rlp::encode(&two)).map_err(|p| format!("encoding a list of records panicked: {p}"))?;
    let mut want_list = Vec::new();
    rlp::enc_list_payload(&mut want_list, &[bytes.as_slice(), bytes.as_slice()].concat());
    if list != want_list {
        return Err("a list of two records encoded through alloy-rlp is not the RLP list of their encodings".into());
    }
    match guarded(|| Vec::<Enr<K>>::decode(&mut list.as_slice())).map_err(|p| format!("Vec::decode panicked: {p}"))? {
        Ok(v) => {
            if v.len() != 2 || v[0] != *e || v[1] != *e {
                return Err("a list of two records does not decode back to the same records".into());
            }
        }
        Err(x) => return Err(format!("a list of two records encoded through alloy-rlp does not decode back: {x:?}")),
    }
    let val = serde_json::to_value(e).map_err(|x| format!("serialize: {x}"))?;
    same("JSON value", guarded(|| serde_json::from_value::<Enr<K>>(val).map_err(|x| x.to_string())).map_err(|p| format!("panic {p}"))?)?;
    Ok(())
}

struct V<'a> {
    st: &'a mut Stats,
    /// state after the last step of the observed run
    last: Option<Snap>,
    updates: usize,
    nontrivial: bool,
    stop: bool,
}

fn interesting_record(s: &Snap) -> bool {
    s.pairs.iter().any(|(k, v)| {
        !is_reserved(k) || v.first().map(|b| *b >= 0xc0).unwrap_or(false) || v.as_slice() == [0x80]
    }) || crate::gen::wire::SEQ_BOUNDARY.contains(&s.seq)
}

impl<'a> Visitor for V<'a> {
    fn step<K: Fam>(&mut self, cx: &StepCx<K>) -> Result<(), String> {
        if let Some(p) = cx.post {
            self.last = Some(p.clone());
        }
        if self.stop || !cx.res.is_ok() {
            return Ok(());
        }
        let (post, enr) = match (cx.post, cx.enr) {
            (Some(p), Some(e)) => (p, e),
            _ => return Ok(()),
        };
        let fam = cx.fam();
        if known_combined_state(fam, post) && !crate::engine::strict() && crate::engine::is_known(crate::props::c05::KNOWN_COMBINED_ED) {
            self.st.known(crate::props::c05::KNOWN_COMBINED_ED);
            self.stop = true;
            return Ok(());
        }
        if cx.op.map(|o| o.is_mutator()).unwrap_or(false) {
            self.updates += 1;
        }
        self.st.evals(6);
        let d = describe_step(cx);
        round_trips::<K>(enr, post).map_err(|m| format!("{d}: {m}"))?;
        if let Some(kt) = fam.key_type() {
            match ref_decode_exact(&post.enc, kt) {
                RefOutcome::Accept(r) => libio::same_as_ref(post, &r).map_err(|m| format!("{d}: independent parse of the encoding: {m}"))?,
                RefOutcome::Unspecified(_) => self.st.unspecified(),
                RefOutcome::Reject(rej) => return Err(format!("{d}: the record's encoding is rejected by the independent parser ({rej:?})")),
            }
        }
        if interesting_record(post) || self.updates >= 2 {
            self.nontrivial = true;
        }
        Ok(())
    }
}

impl Property for C04 {
    fn id(&self) -> &'static str {
        "C04"
    }
    fn rule(&self) -> String {
        "cases: (a) byte inputs as for C02 (valid records and re-signed structural mutants), for every key type: whenever the library accepts an input, re-encoding the record reproduces the consumed bytes bit for bit (also in the regions C02 leaves open) and the record's fields equal the independent parse; (b) call histories as for C05 (all 22 mutators, typed / raw / reserved / custom keys and values, twelve key families (four built-in types with both CombinedKey variants, seven custom schemes: variable / very long signatures, 21-byte records, signature lengths 50..61, one-byte key and signature, 64..130-byte keys, empty signature)): every record returned by the builder, an update or a decode is encoded to bytes, to_base64, Display, JSON string and JSON value, plus an alloy-rlp-encoded list of two copies; Encodable::length() must equal the encoding length; each form must decode back to a record that is == the original and has identical seq / pairs / signature / public key / node id / encoding; to_base64 must equal 'enr:' + reference base64 of the encoding; the encoding must be accepted by the reference decoder with the same fields. Non-trivial: an accepted input, or a history record with a custom key, a list value, an empty value, a boundary sequence number or >= 2 updates. Distinct by hash of the case.".into()
    }
    fn assumptions(&self) -> Vec<String> {
        vec!["independent parse = reference decoder of C02".into()]
    }
    fn entropy_len(&self) -> usize {
        1500
    }
    fn random_cases(&self, quick: bool) -> u64 {
        if quick {
            14_000
        } else {
            300_000
        }
    }
    fn enumerate(&self, quick: bool) -> Box<dyn Iterator<Item = Case> + Send + '_> {
        let ex = (if quick { vec![FamId::K256] } else { ALL_FAMS.to_vec() }).into_iter().flat_map(move |f| history::exhaustive(f, if quick { 1 } else { 2 })).chain(history::depth1_rest(if quick { &[FamId::K256] } else { &ALL_FAMS })).chain(history::long_repeats(quick)).chain(history::many_pairs(quick)).chain(crate::props::c09::builder_sweep()).map(Case::Hist);
        Box::new(ex.chain(crate::props::c02::C02.enumerate(quick)))
    }
    fn fuzz_plans(&self) -> Vec<(&'static str, u64)> {
        vec![("wire_raw", 30000), ("history", 6000)]
    }
    fn gen(&self, c: &mut Choices) -> Case {
        if c.bool() {
            Case::Hist(history::gen_history(c, None))
        } else {
            crate::props::c02::C02.gen(c)
        }
    }
    fn check(&self, case: &Case, st: &mut Stats) -> Result<(), String> {
        match case {
            Case::Hist(h) => {
                let mut v = V { st, last: None, updates: 0, nontrivial: false, stop: false };
                let out = run_history(h, false, &mut v)?;
                let nt = v.nontrivial;
                let stopped = v.stop;
                let last = v.last.take();
                // the same history without any observation in between, observed cold at the end
                if !h.ops.is_empty() && out.aborted.is_none() && !stopped {
                    if let Some((_, cold)) = crate::exec::run_blind(h, h.ops.len(), (crate::case::case_hash(h) % 3) as u8)? {
                        st.evals(1);
                        st.label("blind-run");
                        cold_consistent(&cold, last.as_ref()).map_err(|m| format!("after {} unobserved calls: {m}", h.ops.len()))?;
                    }
                }
                st.label("kind:history");
                label_history(h, st);
                if nt {
                    st.nontrivial(h);
                    st.sample(&format!("hist-{}", h.fam.name()), || json!(case));
                }
                Ok(())
            }
            Case::Wire(w) => {
                st.label("kind:bytes");
                let mut acc = false;
                for kt in ALL_KEY_TYPES {
                    st.evals(1);
                    if let LibOut::Ok(s, n) = libio::decode(kt, &w.bytes) {
                        acc = true;
                        if s.enc[..] != w.bytes[..n] {
                            return Err(format!("[{kt:?}] re-encoding an accepted input does not reproduce the consumed bytes ({})", w.label));
                        }
                        match ref_decode_exact(&w.bytes, kt) {
                            RefOutcome::Accept(r) => libio::same_as_ref(&s, &r).map_err(|m| format!("[{kt:?}] {m}"))?,
                            RefOutcome::Unspecified(_) => {
                                // verbatim re-emission is still claimed: raw pairs must be the input's elements
                                st.unspecified();
                                let elems = rlp::list_elems(&w.bytes).ok_or("accepted input is not a list")?;
                                let raws: Vec<Vec<u8>> = elems.iter().skip(2).map(|(_, r, _)| r.clone()).collect();
                                let mine: Vec<Vec<u8>> = s.pairs.iter().flat_map(|(k, v)| [rlp::encode_str(k), v.clone()]).collect();
                                if raws != mine {
                                    return Err(format!("[{kt:?}] raw pairs differ from the input's elements"));
                                }
                            }
                            RefOutcome::Reject(_) => {} // acceptance is C02's
                        }
                    }
                }
                if acc {
                    st.label("bytes-accepted");
                    st.nontrivial(&w.bytes);
                    st.sample(&format!("bytes-{}", crate::props::c02::base_label(&w.label)), || json!(case));
                }
                Ok(())
            }
            _ => Err("C04: wrong case type".into()),
        }
    }
    fn health(&self, st: &Stats, _q: bool) -> Result<(), String> {
        for l in ["kind:history", "bytes-accepted"] {
            if st.labels.get(l).copied().unwrap_or(0) < 1000 {
                return Err(format!("{l} under-represented"));
            }
        }
        Ok(())
    }
}
