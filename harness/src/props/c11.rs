//! C11 — key back-ends are interchangeable and signature schemes are isolated.
use crate::case::*;
use crate::cases::Case;
use crate::choices::Choices;
use crate::engine::{Property, Stats};
use crate::exec::{run_history, Snap, StepCx, Visitor};
use crate::gen::history;
use crate::keys::{Fam, FamId, BUILTIN_FAMS};
use crate::libio::{self, LibOut};
use crate::props::hist::*;
use crate::refmodel::crypto;
use crate::refmodel::record::{KeyType, Scheme};
use crate::refmodel::rlp;
use serde_json::json;

pub struct C11;

/// payload of a string entry, Some(None) when present but not a string
fn entry(pairs_raw: &[(bool, Vec<u8>, Vec<u8>)], name: &[u8]) -> Option<Option<Vec<u8>>> {
    let mut i = 2;
    while i + 1 < pairs_raw.len() {
        if !pairs_raw[i].0 && pairs_raw[i].2 == name {
            return Some(if pairs_raw[i + 1].0 { None } else { Some(pairs_raw[i + 1].2.clone()) });
        }
        i += 2;
    }
    None
}

fn same_fields(a: &Snap, b: &Snap) -> bool {
    a.seq == b.seq && a.pairs == b.pairs && a.sig == b.sig && a.pk == b.pk && a.node_id == b.node_id && a.enc == b.enc
}

fn agree(what: &str, a: &LibOut, b: &LibOut) -> Result<(), String> {
    match (a, b) {
        (LibOut::Ok(x, n), LibOut::Ok(y, m)) => {
            if !same_fields(x, y) || n != m {
                return Err(format!("{what}: both accept but report different fields"));
            }
            Ok(())
        }
        (LibOut::Err(_), LibOut::Err(_)) => Ok(()),
        (LibOut::Panic(p), _) | (_, LibOut::Panic(p)) => Err(format!("{what}: panic {p}")),
        (LibOut::Ok(..), LibOut::Err(e)) => Err(format!("{what}: the first accepts, the second rejects ({e})")),
        (LibOut::Err(e), LibOut::Ok(..)) => Err(format!("{what}: the first rejects ({e}), the second accepts")),
    }
}

/// The C11 relations on one byte input. Returns (any accepted, rejected-with-33-byte-key).
pub fn check_bytes(bytes: &[u8], st: &mut Stats) -> Result<(bool, bool), String> {
    let elems = rlp::list_elems(bytes);
    let (secp, ed) = match &elems {
        Some(e) => (entry(e, b"secp256k1"), entry(e, b"ed25519")),
        None => (None, None),
    };
    // public keys restricted to 33-byte strings (valid or not); 65-byte entries are outside C11
    if let Some(Some(p)) = &secp {
        if p.len() == 65 {
            st.unspecified();
            return Ok((false, false));
        }
    }
    let k = libio::decode(KeyType::K256, bytes);
    let l = libio::decode(KeyType::Libsecp, bytes);
    let e = libio::decode(KeyType::Ed, bytes);
    let c = libio::decode(KeyType::Combined, bytes);
    st.evals(4);
    agree("k256 vs rust-secp256k1", &k, &l)?;
    let secp_valid = matches!(&secp, Some(Some(p)) if crypto::secp_pk_valid(p));
    if secp_valid {
        agree("k256 vs CombinedKey (valid secp256k1 entry)", &k, &c)?;
    } else {
        agree("ed25519 vs CombinedKey (no valid secp256k1 entry)", &e, &c)?;
    }
    if secp.is_none() && (k.is_ok() || l.is_ok()) {
        return Err("a secp256k1 key type accepts a record without a secp256k1 entry".into());
    }
    if ed.is_none() && e.is_ok() {
        return Err("the ed25519 key type accepts a record without an ed25519 entry".into());
    }
    let any_ok = k.is_ok() || l.is_ok() || e.is_ok() || c.is_ok();
    let rej33 = !any_ok && matches!(&secp, Some(Some(p)) if p.len() == 33);
    Ok((any_ok, rej33))
}

struct V<'a> {
    st: &'a mut Stats,
    n: usize,
    stop: bool,
}

impl<'a> Visitor for V<'a> {
    fn step<K: Fam>(&mut self, cx: &StepCx<K>) -> Result<(), String> {
        if self.stop || !cx.res.is_ok() {
            return Ok(());
        }
        let post = match cx.post {
            Some(p) => p,
            None => return Ok(()),
        };
        let fam = cx.fam();
        let d = describe_step(cx);
        if known_combined_state(fam, post) {
            // known finding region (CombinedKey precedence); for plain ed25519 records with a secp256k1
            // entry the secp key types legitimately see a different record
            if !crate::engine::strict() && crate::engine::is_known(crate::props::c05::KNOWN_COMBINED_ED) {
                // this state is the recorded finding; states reached afterwards are judged again
                self.st.known(crate::props::c05::KNOWN_COMBINED_ED);
                return Ok(());
            }
        }
        // the scheme the record is held under: for CombinedKey the secp256k1 entry whenever it is a valid key
        // (histories may sign with a CombinedKey of the other variant)
        let eff = if matches!(fam, FamId::CombinedSecp | FamId::CombinedEd) {
            if secp_valid_entry(&post.pairs) {
                Scheme::Secp
            } else {
                Scheme::Ed
            }
        } else {
            fam.scheme()
        };
        // a record signed through one back-end is accepted by all back-ends of its scheme
        let targets: &[KeyType] = match eff {
            Scheme::Secp => &[KeyType::K256, KeyType::Libsecp, KeyType::Combined],
            Scheme::Ed => &[KeyType::Ed, KeyType::Combined],
        };
        for kt in targets {
            if fam == FamId::Ed && *kt == KeyType::Combined && secp_valid_entry(&post.pairs) {
                // a plain ed25519 record that carries a valid secp256k1 entry: CombinedKey legitimately
                // reads it as a secp256k1 record
                continue;
            }
            self.st.evals(1);
            match libio::decode(*kt, &post.enc) {
                LibOut::Ok(s, _) => {
                    if !(s.seq == post.seq && s.pairs == post.pairs && s.sig == post.sig && s.node_id == post.node_id && s.pk == post.pk) {
                        return Err(format!("{d}: decoded under {kt:?} the record reports different fields"));
                    }
                }
                o => return Err(format!("{d}: a record produced through {} is not accepted under {kt:?}: {o:?}", fam.name())),
            }
        }
        // scheme isolation
        let others: &[KeyType] = match eff {
            Scheme::Secp => &[KeyType::Ed],
            Scheme::Ed => &[KeyType::K256, KeyType::Libsecp],
        };
        for kt in others {
            if libio::decode(*kt, &post.enc).is_ok() {
                return Err(format!("{d}: a {} record is accepted by the single-scheme key type {kt:?}", fam.name()));
            }
        }
        check_bytes(&post.enc, self.st).map_err(|m| format!("{d}: {m}"))?;
        self.n += 1;
        Ok(())
    }
}

impl Property for C11 {
    fn id(&self) -> &'static str {
        "C11"
    }
    fn rule(&self) -> String {
        "cases: (a) byte inputs of C01/C02 (valid records of both schemes and with both entries, tampers, re-signed structural mutants incl. every invalid 33-byte public-key encoding: wrong tag 00/04/05/06/07, off-curve x, x >= p) decoded under all four key types; (b) call histories through every built-in back-end (k256, rust-secp256k1, ed25519, CombinedKey both variants): every record obtained is encoded and decoded under every other key type. Oracle: k256 and rust-secp256k1 give the same outcome and fields on every input; CombinedKey equals k256 whenever the secp256k1 entry is a valid key and equals the ed25519 type otherwise; a record produced through any back-end is accepted, with identical fields, by all back-ends of its scheme; a single-scheme type never accepts a record lacking its scheme's entry nor a record produced by the other scheme. 65-byte SEC1 keys are outside the property and skipped (counted). Non-trivial: an accepted input, or a rejected one whose secp256k1 entry is a 33-byte string. Distinct by hash of the case.".into()
    }
    fn assumptions(&self) -> Vec<String> {
        vec!["differential between back-ends: no reference needed beyond key validity (libsecp256k1 with tag 02/03 rule)".into()]
    }
    fn entropy_len(&self) -> usize {
        1500
    }
    fn random_cases(&self, quick: bool) -> u64 {
        if quick {
            20_000
        } else {
            400_000
        }
    }
    fn enumerate(&self, quick: bool) -> Box<dyn Iterator<Item = Case> + Send + '_> {
        let ex = BUILTIN_FAMS.to_vec().into_iter().flat_map(move |f| history::exhaustive(f, if quick { 1 } else { 2 })).map(Case::Hist);
        // all 256 tag bytes on a valid key, re-signed
        let tags = (0..=255u8).flat_map(|t| {
            (0..2u64).map(move |j| {
                let e = crate::choices::det_entropy("c11/tag", j, 1400);
                let mut c = Choices::new(&e);
                let mut d = crate::gen::wire::gen_valid_draft(&mut c);
                d.scheme = Scheme::Secp;
                d.secret = crate::keys::pool().secp[(t as usize) % crate::keys::pool().secp.len()];
                let mut pk = crate::gen::wire::ref_pk(Scheme::Secp, &d.secret);
                pk[0] = t;
                d.remove(b"ed25519");
                d.set(b"secp256k1", rlp::encode_str(&pk));
                let bytes = crate::gen::wire::valid_bytes(&d);
                Case::Wire(crate::cases::WireCase { bytes, label: format!("pk-tag-{t:02x}"), has_custom: false })
            })
        });
        let cross = history::cross_sequences(quick).into_iter().map(Case::Hist);
        Box::new(ex.chain(cross).chain(tags).chain(crate::props::c02::C02.enumerate(quick)))
    }
    fn fuzz_plans(&self) -> Vec<(&'static str, u64)> {
        vec![("wire_raw", 30000), ("wire_struct", 15000)]
    }
    fn gen(&self, c: &mut Choices) -> Case {
        match c.below(5) {
            0 | 1 => {
                let f = *c.pick(&BUILTIN_FAMS);
                let mut h = history::gen_history(c, Some(f));
                if matches!(f, FamId::CombinedSecp | FamId::CombinedEd) && h.keys.len() > 1 && c.bool() {
                    // the last key belongs to the other scheme (every pool secret is valid for both)
                    let i = h.keys.len() - 1;
                    if !crypto::secp_secret_valid(&h.keys[i].0) {
                        h.keys[i] = crate::case::Secret(crate::keys::pool().secp[0]);
                    }
                    h.alt_keys.push(i);
                }
                Case::Hist(h)
            }
            2 => crate::props::c01::C01.gen(c),
            _ => crate::props::c02::C02.gen(c),
        }
    }
    fn check(&self, case: &Case, st: &mut Stats) -> Result<(), String> {
        match case {
            Case::Hist(h) => {
                if matches!(h.fam, FamId::Var | FamId::Wide | FamId::Tiny | FamId::Mid | FamId::Nano | FamId::Big | FamId::Clash | FamId::Null) {
                    return Ok(());
                }
                let mut v = V { st, n: 0, stop: false };
                run_history(h, false, &mut v)?;
                let n = v.n;
                st.label("kind:history");
                label_history(h, st);
                if n > 0 {
                    st.nontrivial(h);
                    st.sample(&format!("hist-{}", h.fam.name()), || json!(case));
                }
                Ok(())
            }
            Case::Wire(w) => {
                st.label("kind:bytes");
                let (acc, rej33) = check_bytes(&w.bytes, st).map_err(|m| format!("{m} (generated as {})", w.label))?;
                if acc {
                    st.label("bytes-accepted");
                }
                if rej33 {
                    st.label("bytes-rejected-33-byte-key");
                }
                if acc || rej33 {
                    st.nontrivial(&w.bytes);
                    st.sample(&format!("bytes-{}-{}", crate::props::c02::base_label(&w.label), acc), || json!(case));
                }
                Ok(())
            }
            _ => Err("C11: wrong case type".into()),
        }
    }
    fn health(&self, st: &Stats, _q: bool) -> Result<(), String> {
        for l in ["kind:history", "bytes-accepted", "bytes-rejected-33-byte-key"] {
            if st.labels.get(l).copied().unwrap_or(0) < 500 {
                return Err(format!("{l} under-represented"));
            }
        }
        Ok(())
    }
}
