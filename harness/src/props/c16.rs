//! C16 — NodeId value type: exact 32-byte identity, strict parse, hex forms round-trip.
use crate::cases::{Case, NodeIdCase};
use crate::choices::Choices;
use crate::engine::{Property, Stats};
use crate::exec::guarded;
use crate::hexser::hex;
use enr::NodeId;
use serde_json::json;

pub struct C16;

fn is_hex_digit(c: u8) -> bool {
    c.is_ascii_digit() || (b'a'..=b'f').contains(&c) || (b'A'..=b'F').contains(&c)
}

/// reference: strip one optional `0x`, the rest must be exactly 64 hex digits
pub fn ref_parse_hex(s: &str) -> Option<[u8; 32]> {
    let body = s.strip_prefix("0x").unwrap_or(s);
    let b = body.as_bytes();
    if b.len() != 64 || !b.iter().all(|c| is_hex_digit(*c)) {
        return None;
    }
    let v = crate::hexser::unhex(body)?;
    let mut a = [0u8; 32];
    a.copy_from_slice(&v);
    Some(a)
}

fn adjacent_hex(s: &str) -> bool {
    let body = s.strip_prefix("0x").unwrap_or(s);
    let n = body.len();
    let bad = body.bytes().filter(|c| !is_hex_digit(*c)).count();
    (n == 63 || n == 65 || (n == 64 && bad == 1)) || (n == 64 && bad == 0)
}

fn check_raw32(b: &[u8; 32], st: &mut Stats) -> Result<(), String> {
    let r = guarded(|| -> Result<(), String> {
        let a = NodeId::new(b);
        let c: NodeId = NodeId::from(*b);
        let d = NodeId::parse(b).map_err(|e| format!("parse(32 bytes) failed: {e}"))?;
        for (n, v) in [("new", a), ("from", c), ("parse", d)] {
            if v.raw() != *b {
                return Err(format!("{n}: raw() differs"));
            }
            if v.as_ref() != &b[..] {
                return Err(format!("{n}: as_ref() differs"));
            }
            if !(v == *b) {
                return Err(format!("{n}: == [u8;32] false"));
            }
            if v != a {
                return Err(format!("{n}: not equal to new()"));
            }
        }
        let mut other = *b;
        other[31] ^= 1;
        if a == other || a == NodeId::new(&other) {
            return Err("equal to a different value".into());
        }
        // equality with byte arrays and other ids is byte-wise equality: structured relatives of the value
        // (the same mask applied at two offsets 8/16/24 apart, two bytes swapped, rotations by 1/8/16,
        // complement, reversal, single bits) are equal to it exactly when the bytes are
        let mut rel: Vec<[u8; 32]> = Vec::new();
        for (i, j) in [(3usize, 19usize), (0, 8), (7, 31), (5, 13), (1, 2), (0, 24), (15, 16)] {
            for m in [0x01u8, 0x80, 0xff, b[i] ^ b[j]] {
                let mut x = *b;
                x[i] ^= m;
                x[j] ^= m;
                rel.push(x);
            }
            let mut x = *b;
            x.swap(i, j);
            rel.push(x);
        }
        for r in [1usize, 8, 16, 24, 31] {
            let mut x = *b;
            x.rotate_left(r);
            rel.push(x);
        }
        rel.push(b.map(|v| !v));
        let mut rv = *b;
        rv.reverse();
        rel.push(rv);
        for bit in 0..256usize {
            let mut x = *b;
            x[bit / 8] ^= 1 << (bit % 8);
            rel.push(x);
        }
        for x in &rel {
            let same = x == b;
            #[allow(clippy::nonminimal_bool)]
            if (a != *x) == same || (a != NodeId::new(x)) == same || (vec![a] == vec![NodeId::new(x)]) != same {
                return Err(format!("!= / Vec equality with the related value {} disagrees with byte-wise equality ({same})", hex(x)));
            }
            if (a == *x) != same || (a == NodeId::new(x)) != same || (NodeId::new(x) == *b) != same {
                return Err(format!("== with the related value {} is {} but byte-wise equality is {same}", hex(x), a == *x));
            }
        }
        // a serialisation that fails in the writer must not affect the next one
        let mut small = [0u8; 10];
        if serde_json::to_writer(&mut small[..], &a).is_ok() {
            return Err("serialising into a 10-byte buffer succeeded".into());
        }
        let js = serde_json::to_string(&a).map_err(|e| format!("serialize: {e}"))?;
        let want = format!("\"0x{}\"", hex(b));
        if js != want {
            return Err(format!("JSON form {js} != {want}"));
        }
        let back: NodeId = serde_json::from_str(&js).map_err(|e| format!("deserialize own JSON: {e}"))?;
        if back.raw() != *b {
            return Err("JSON round trip changed the id".into());
        }
        let back2: NodeId = serde_json::from_value(serde_json::to_value(a).map_err(|e| e.to_string())?)
            .map_err(|e| format!("from_value: {e}"))?;
        if back2.raw() != *b {
            return Err("Value round trip changed the id".into());
        }
        let dbg = format!("{a:?}");
        if dbg != format!("0x{}", hex(b)) {
            return Err(format!("Debug {dbg}"));
        }
        let disp = format!("{a}");
        let wantd = format!("0x{}..{}", hex(&b[..2]), hex(&b[30..]));
        if disp != wantd {
            return Err(format!("Display {disp} != {wantd}"));
        }
        // formatting into a sink that itself formats a node id while it is being written to (a log line
        // tagger): both the outer and the nested formatting produce their forms
        {
            struct Tagger {
                out: String,
                tag: NodeId,
                tags: usize,
            }
            impl std::fmt::Write for Tagger {
                fn write_str(&mut self, s: &str) -> std::fmt::Result {
                    let t = format!("[{}|{:?}]", self.tag, self.tag);
                    self.tags += 1;
                    if t != format!("[0x1111..1111|0x{}]", "11".repeat(32)) {
                        return Err(std::fmt::Error);
                    }
                    self.out.push_str(s);
                    Ok(())
                }
            }
            use std::fmt::Write as _;
            let mut sink = Tagger { out: String::new(), tag: NodeId::new(&[0x11; 32]), tags: 0 };
            if write!(sink, "{a} {a:?}").is_err() {
                return Err("formatting into a sink that formats another node id failed (nested form wrong)".into());
            }
            if sink.out != format!("{wantd} {dbg}") || sink.tags == 0 {
                return Err(format!("formatting into a tagging sink gives {:?}", sink.out));
            }
        }
        // formatter flags must not change the forms (pretty Debug is what dbg! and {:#?} of a
        // containing struct use)
        let alt = format!("{a:#?}");
        if alt != dbg {
            return Err(format!("pretty Debug {alt} != Debug {dbg}"));
        }
        let alt_disp = format!("{a:#}");
        if alt_disp != wantd {
            return Err(format!("alternate Display {alt_disp} != {wantd}"));
        }
        let inside = format!("{:#?}", (a,));
        if !inside.contains(&format!(" {dbg},")) && !inside.contains(&format!("{dbg},")) || inside.contains("0x0x") {
            return Err(format!("Debug inside a pretty-printed container: {inside}"));
        }
        let opt = format!("{:?}", Some(a));
        if opt != format!("Some({dbg})") {
            return Err(format!("Debug inside Option: {opt}"));
        }
        Ok(())
    });
    st.evals(1);
    match r {
        Ok(x) => x,
        Err(p) => Err(format!("panic: {p}")),
    }
}

impl Property for C16 {
    fn id(&self) -> &'static str {
        "C16"
    }
    fn rule(&self) -> String {
        "cases: 32-byte values (patterned + random) through new/From/parse/raw/as_ref/==/JSON/Debug/Display; byte slices of every length 0..=64 through parse; strings (valid hex mutated by insert/delete/replace, prefix variants, random charset strings of length 0..=70) and arbitrary JSON texts through the deserialiser. Non-trivial: a slice of 31/32/33 bytes, a string whose body has 63/64/65 characters with at most one non-hex character, or a 32-byte value with distinct first and last bytes. Distinct by hash of the case.".into()
    }
    fn assumptions(&self) -> Vec<String> {
        vec!["serde_json is the JSON implementation".into()]
    }
    fn entropy_len(&self) -> usize {
        256
    }
    fn random_cases(&self, quick: bool) -> u64 {
        if quick {
            60_000
        } else {
            2_000_000
        }
    }
    fn exhaustive_part(&self, _q: bool) -> Option<String> {
        Some("parse(): all slice lengths 0..=64 x 4 fill patterns; 32-byte values: all-zero, all-ff, each single set bit, ascending; deserialiser: every single-character substitution of a valid 64-digit string by every printable non-hex ASCII character at every position".into())
    }
    fn enumerate(&self, _quick: bool) -> Box<dyn Iterator<Item = Case> + Send + '_> {
        let mut v = Vec::new();
        for len in 0..=64usize {
            for pat in 0..4u8 {
                let b: Vec<u8> = (0..len)
                    .map(|i| match pat {
                        0 => 0,
                        1 => 0xff,
                        2 => i as u8 + 1,
                        _ => (i as u8).wrapping_mul(37) ^ 0xa5,
                    })
                    .collect();
                v.push(Case::NodeId(NodeIdCase::Slice(b)));
            }
        }
        v.push(Case::NodeId(NodeIdCase::Raw32(vec![0; 32])));
        v.push(Case::NodeId(NodeIdCase::Raw32(vec![0xff; 32])));
        v.push(Case::NodeId(NodeIdCase::Raw32((0..32).collect())));
        for bit in 0..256 {
            let mut b = vec![0u8; 32];
            b[bit / 8] = 1 << (bit % 8);
            v.push(Case::NodeId(NodeIdCase::Raw32(b)));
        }
        // hex strings: structured variants of one valid body
        let body: String = "9a5f5064e020de899ddbc5182d8f5a6a630c095d2c42c4cb23e91a3b3280a8b4".into();
        let up = body.to_uppercase();
        for s in [
            body.clone(),
            format!("0x{body}"),
            format!("0X{body}"),
            format!("0x0x{body}"),
            format!("0x{up}"),
            up.clone(),
            format!(" 0x{body}"),
            format!("0x{body} "),
            format!("0x{}", &body[..63]),
            format!("0x{body}0"),
            format!("{body}00"),
            body[..62].to_string(),
            String::new(),
            "0x".into(),
            format!("0x{}g", &body[..63]),
            format!("x{body}"),
            format!("0x{}", &body[2..]),
        ] {
            v.push(Case::NodeId(NodeIdCase::Hex(s)));
        }
        // every single-character substitution of a valid string by every printable non-hex ASCII
        // character (and a few others), at every position, with and without prefix
        let others: Vec<char> = (0x20u8..0x7f).map(|b| b as char).filter(|c| !c.is_ascii_hexdigit()).chain(['\t', '\n', '\0', 'é', '０']).collect();
        for pos in 0..64 {
            for ch in &others {
                let mut b: Vec<char> = body.chars().collect();
                b[pos] = *ch;
                let t: String = b.into_iter().collect();
                v.push(Case::NodeId(NodeIdCase::Hex(t.clone())));
                if pos % 4 == 0 {
                    v.push(Case::NodeId(NodeIdCase::Hex(format!("0x{t}"))));
                }
            }
        }
        for j in [
            "null", "0", "[]", "{}", "true", "\"\"", "[\"0x00\"]", "1e400", "\"\\u0000\"", "", "\"",
            "{\"raw\":\"0x00\"}",
        ] {
            v.push(Case::NodeId(NodeIdCase::Json(j.into())));
        }
        Box::new(v.into_iter())
    }
    fn gen(&self, c: &mut Choices) -> Case {
        let kind = c.below(10);
        Case::NodeId(match kind {
            0 | 1 => NodeIdCase::Raw32(c.bytes(32)),
            2 => {
                let len = if c.chance(128) { 31 + c.below(3) } else { c.below(65) };
                NodeIdCase::Slice(c.bytes(len))
            }
            3 => {
                // arbitrary JSON-ish text
                const TOK: [&str; 14] = ["\"", "0x", "[", "]", "{", "}", ":", ",", "null", "1", "a", "\\", "f", " "];
                let n = c.below(12);
                let mut s = String::new();
                for _ in 0..n {
                    let t: &str = *c.pick::<&str>(&TOK[..]); s.push_str(t);
                }
                NodeIdCase::Json(s)
            }
            4 => {
                // random charset string of length 0..=70
                const CS: &[u8] = b"0123456789abcdefABCDEFxXgz \t\n";
                let n = c.below(71);
                let s: String = (0..n).map(|_| *c.pick(CS) as char).collect();
                NodeIdCase::Hex(s)
            }
            _ => {
                // valid body, mixed case, prefix variant, then 0..2 edits
                const HX: &[u8] = b"0123456789abcdefABCDEF";
                let mut body: Vec<char> = (0..64).map(|_| *c.pick(HX) as char).collect();
                let edits = c.below(3);
                for _ in 0..edits {
                    let pos = c.below(body.len() + 1);
                    const INS: &[char] = &['0', 'f', 'A', 'g', 'x', ' ', 'é', '\0', '-', 'G', '+', '_', '.', '#', 'X', '０'];
                    match c.below(3) {
                        0 => {
                            if pos < body.len() {
                                body.remove(pos);
                            }
                        }
                        1 => body.insert(pos, *c.pick(INS)),
                        _ => {
                            if pos < body.len() {
                                body[pos] = *c.pick(INS);
                            }
                        }
                    }
                }
                let pre = *c.pick(&["0x", "", "0x", "0X", "0x0x", " 0x", "x"]);
                NodeIdCase::Hex(format!("{pre}{}", body.into_iter().collect::<String>()))
            }
        })
    }
    fn check(&self, case: &Case, st: &mut Stats) -> Result<(), String> {
        let nc = match case {
            Case::NodeId(n) => n,
            _ => return Err("C16: wrong case type".into()),
        };
        match nc {
            NodeIdCase::Raw32(b) => {
                if b.len() != 32 {
                    return Ok(());
                }
                let mut a = [0u8; 32];
                a.copy_from_slice(b);
                st.label("raw32");
                if a[0] != a[31] {
                    st.nontrivial(case);
                    st.sample("raw32", || json!(case));
                }
                check_raw32(&a, st)
            }
            NodeIdCase::Slice(b) => {
                st.label(&format!("slice-len-{}", if b.len() < 31 { "lt31" } else if b.len() > 33 { "gt33" } else if b.len() == 32 { "32" } else { "31or33" }));
                if (31..=33).contains(&b.len()) {
                    st.nontrivial(case);
                    st.sample("slice-adjacent", || json!(case));
                }
                st.evals(1);
                let r = guarded(|| NodeId::parse(b)).map_err(|p| format!("NodeId::parse panicked: {p}"))?;
                match (r, b.len() == 32) {
                    (Ok(v), true) => {
                        if v.raw()[..] != b[..] {
                            return Err("parse(32 bytes) returned other bytes".into());
                        }
                        Ok(())
                    }
                    (Err(_), false) => Ok(()),
                    (Ok(_), false) => Err(format!("NodeId::parse accepted a slice of {} bytes", b.len())),
                    (Err(e), true) => Err(format!("NodeId::parse rejected 32 bytes: {e}")),
                }
            }
            NodeIdCase::Hex(s) => {
                let want = ref_parse_hex(s);
                st.label(if want.is_some() { "hex-valid" } else { "hex-invalid" });
                if adjacent_hex(s) {
                    st.nontrivial(case);
                    st.sample(if want.is_some() { "hex-valid" } else { "hex-adjacent-invalid" }, || json!(case));
                }
                st.evals(1);
                let js = serde_json::to_string(s).unwrap();
                let got = guarded(|| serde_json::from_str::<NodeId>(&js)).map_err(|p| format!("deserialize panicked: {p}"))?;
                match (got, want) {
                    (Ok(v), Some(w)) => {
                        if v.raw() != w {
                            return Err(format!("deserialised {s:?} to a different id"));
                        }
                        // also through from_value (owned string path)
                        let v2: NodeId = serde_json::from_value(serde_json::Value::String(s.clone()))
                            .map_err(|e| format!("from_value rejects what from_str accepts: {e}"))?;
                        if v2.raw() != w {
                            return Err("from_value gives a different id".into());
                        }
                        Ok(())
                    }
                    (Err(_), None) => Ok(()),
                    (Ok(_), None) => Err(format!("deserialiser accepted {s:?}")),
                    (Err(e), Some(_)) => Err(format!("deserialiser rejected {s:?}: {e}")),
                }
            }
            NodeIdCase::Json(j) => {
                st.label("json-text");
                st.evals(1);
                let got = guarded(|| serde_json::from_str::<NodeId>(j)).map_err(|p| format!("deserialize panicked: {p}"))?;
                let want = match serde_json::from_str::<serde_json::Value>(j) {
                    Ok(serde_json::Value::String(s)) => ref_parse_hex(&s),
                    _ => None,
                };
                match (got, want) {
                    (Ok(v), Some(w)) if v.raw() == w => Ok(()),
                    (Err(_), None) => Ok(()),
                    (Ok(_), _) => Err(format!("deserialiser accepted JSON text {j:?}")),
                    (Err(e), Some(_)) => Err(format!("deserialiser rejected JSON text {j:?}: {e}")),
                }
            }
        }
    }
    fn health(&self, st: &Stats, _quick: bool) -> Result<(), String> {
        for l in ["raw32", "hex-valid", "hex-invalid", "slice-len-32", "slice-len-31or33"] {
            if st.labels.get(l).copied().unwrap_or(0) < 20 {
                return Err(format!("label {l} under-represented"));
            }
        }
        Ok(())
    }
}
