//! C14 — typed accessors agree with the raw content for every value.
use crate::case::*;
use crate::cases::Case;
use crate::choices::Choices;
use crate::engine::{Property, Stats};
use crate::exec::{guarded, run_history, CallRes, Snap, StepCx, Visitor};
use crate::gen::history;
use crate::keys::{Fam, FamId, BUILTIN_FAMS};
use crate::model::{raw_as_ip4, raw_as_ip6, raw_as_u16};
use crate::props::hist::*;
use crate::refmodel::rlp::{self, Item};
use bytes::Bytes;
use enr::Enr;
use serde_json::json;
use std::net::{SocketAddr, SocketAddrV4, SocketAddrV6};

pub struct C14;

fn ref_item(raw: &[u8]) -> Option<Item> {
    rlp::decode_exact(raw).ok()
}
fn ref_bytes(raw: &[u8]) -> Option<Vec<u8>> {
    match crate::model::one_item(raw) {
        Some((false, _)) => ref_item(raw).and_then(|i| i.as_str().map(|s| s.to_vec())),
        _ => None,
    }
}
fn ref_uint(raw: &[u8], max_len: usize) -> Option<u64> {
    let b = ref_bytes(raw)?;
    if b.len() > max_len {
        return None;
    }
    rlp::str_to_u64(&b)
}
fn ref_bytes_list(raw: &[u8]) -> Option<Vec<Vec<u8>>> {
    match ref_item(raw)? {
        Item::List(v) => v.iter().map(|i| i.as_str().map(|s| s.to_vec())).collect(),
        _ => None,
    }
}
fn lossy(b: &[u8]) -> String {
    String::from_utf8_lossy(b).to_string()
}

/// Compare every typed accessor of `e` with a reference typed parse of its raw pairs.
#[allow(deprecated)]
pub fn accessors_agree<K: Fam>(e: &Enr<K>, s: &Snap, st: &mut Stats) -> Result<bool, String> {
    let raw = |k: &[u8]| s.get(k).cloned();
    let mut noncanon = false;
    // raw accessor itself
    for (k, v) in &s.pairs {
        if e.get_raw_rlp(k) != Some(v.as_slice()) {
            return Err(format!("get_raw_rlp({}) differs from iter()", lossy(k)));
        }
    }
    // the owning iterator yields the same pairs in the same order
    let owned: Vec<(Vec<u8>, Vec<u8>)> = e.clone().into_iter().map(|(k, v)| (k, v.to_vec())).collect();
    if owned != s.pairs {
        return Err("into_iter() yields other pairs than iter()".into());
    }
    // a key that is not in the record (made longer until it is not)
    let mut absent = b"\xffabsent".to_vec();
    while s.pairs.iter().any(|(k, _)| *k == absent) {
        absent.push(b'!');
    }
    if e.get_raw_rlp(&absent).is_some() || e.get(&absent).is_some() {
        return Err("get_raw_rlp / get report a value for an absent key".into());
    }
    let want_ip4 = raw(b"ip").and_then(|r| raw_as_ip4(&r));
    if e.ip4() != want_ip4 {
        return Err(format!("ip4() = {:?}, raw content says {:?}", e.ip4(), want_ip4));
    }
    let want_ip6 = raw(b"ip6").and_then(|r| raw_as_ip6(&r));
    if e.ip6() != want_ip6 {
        return Err(format!("ip6() = {:?}, raw content says {:?}", e.ip6(), want_ip6));
    }
    let ports: [(&[u8], Option<u16>); 4] = [(b"tcp", e.tcp4()), (b"tcp6", e.tcp6()), (b"udp", e.udp4()), (b"udp6", e.udp6())];
    let mut pv = [None; 4];
    for (i, (k, got)) in ports.iter().enumerate() {
        let want = raw(k).and_then(|r| raw_as_u16(&r));
        if *got != want {
            return Err(format!("{}() = {:?}, raw content says {:?}", lossy(k), got, want));
        }
        pv[i] = want;
        if raw(k).is_some() && want.is_none() {
            noncanon = true;
        }
    }
    let (tcp, tcp6, udp, udp6) = (pv[0], pv[1], pv[2], pv[3]);
    let want_id = raw(b"id").and_then(|r| ref_bytes(&r)).map(|b| lossy(&b));
    if e.id() != want_id {
        return Err(format!("id() = {:?}, raw content says {:?}", e.id(), want_id));
    }
    let want_client = raw(b"client").and_then(|r| ref_bytes_list(&r)).and_then(|l| match l.len() {
        2 => Some((lossy(&l[0]), lossy(&l[1]), None)),
        3 => Some((lossy(&l[0]), lossy(&l[1]), Some(lossy(&l[2])))),
        _ => None,
    });
    if e.client_info() != want_client {
        return Err(format!("client_info() = {:?}, raw content says {:?}", e.client_info(), want_client));
    }
    if raw(b"client").is_some() && want_client.is_none() {
        noncanon = true;
    }
    // sockets and reachability: exactly the combination of the same family's ip and port
    let w_udp4 = want_ip4.zip(udp).map(|(i, p)| SocketAddrV4::new(i, p));
    let w_tcp4 = want_ip4.zip(tcp).map(|(i, p)| SocketAddrV4::new(i, p));
    let w_udp6 = want_ip6.zip(udp6).map(|(i, p)| SocketAddrV6::new(i, p, 0, 0));
    let w_tcp6 = want_ip6.zip(tcp6).map(|(i, p)| SocketAddrV6::new(i, p, 0, 0));
    if e.udp4_socket() != w_udp4 || e.tcp4_socket() != w_tcp4 || e.udp6_socket() != w_udp6 || e.tcp6_socket() != w_tcp6 {
        return Err(format!(
            "socket accessors ({:?},{:?},{:?},{:?}) are not the combination of ip/port accessors ({:?},{:?},{:?},{:?})",
            e.udp4_socket(),
            e.tcp4_socket(),
            e.udp6_socket(),
            e.tcp6_socket(),
            w_udp4,
            w_tcp4,
            w_udp6,
            w_tcp6
        ));
    }
    if e.is_udp_reachable() != (w_udp4.is_some() || w_udp6.is_some()) {
        return Err("is_udp_reachable() disagrees with the udp socket accessors".into());
    }
    if e.is_tcp_reachable() != (w_tcp4.is_some() || w_tcp6.is_some()) {
        return Err("is_tcp_reachable() disagrees with the tcp socket accessors".into());
    }
    // get_decodable for every stored key
    for (k, v) in &s.pairs {
        let kn = lossy(k);
        let g = |r: Option<Result<u64, alloy_rlp::Error>>| r.and_then(|x| x.ok());
        let got8 = g(e.get_decodable::<u8>(k).map(|r| r.map(|x| x as u64)));
        let got16 = g(e.get_decodable::<u16>(k).map(|r| r.map(|x| x as u64)));
        let got64 = g(e.get_decodable::<u64>(k));
        for (t, got, want) in [("u8", got8, ref_uint(v, 1)), ("u16", got16, ref_uint(v, 2)), ("u64", got64, ref_uint(v, 8))] {
            if got != want {
                return Err(format!("get_decodable::<{t}>({kn}) = {got:?}, raw content {} says {want:?}", crate::hexser::hex(v)));
            }
        }
        let gotb = e.get_decodable::<Bytes>(k).and_then(|r| r.ok()).map(|b| b.to_vec());
        if gotb != ref_bytes(v) {
            return Err(format!("get_decodable::<Bytes>({kn}) = {gotb:?}, raw content {} says {:?}", crate::hexser::hex(v), ref_bytes(v)));
        }
        let gots = e.get_decodable::<String>(k).and_then(|r| r.ok());
        let wants = ref_bytes(v).and_then(|b| String::from_utf8(b).ok());
        if gots != wants {
            return Err(format!("get_decodable::<String>({kn}) = {gots:?}, raw content says {wants:?}"));
        }
        let gotl = e.get_decodable::<Vec<Bytes>>(k).and_then(|r| r.ok()).map(|l| l.iter().map(|b| b.to_vec()).collect::<Vec<_>>());
        if gotl != ref_bytes_list(v) {
            return Err(format!("get_decodable::<Vec<Bytes>>({kn}) = {gotl:?}, raw content {} says {:?}", crate::hexser::hex(v), ref_bytes_list(v)));
        }
        // deprecated get(): the payload of the item (whatever its type)
        let gotg = guarded(|| e.get(k)).map_err(|p| format!("get({kn}) panicked: {p}"))?.map(|b| b.to_vec());
        let wantg = rlp::header_at(v).ok().map(|(_, h, p)| v[h..h + p].to_vec());
        if gotg != wantg {
            return Err(format!("get({kn}) = {gotg:?}, payload of the raw item is {wantg:?}"));
        }
        if ref_uint(v, 8).is_none() || ref_bytes_list(v).is_none() {
            // at least one asked type does not apply to this value
        }
    }
    st.evals(20);
    Ok(noncanon)
}

struct V<'a> {
    st: &'a mut Stats,
    nontrivial: bool,
}

fn port_class(p: u16) -> &'static str {
    match p {
        0 => "port-empty-string",
        1..=0x7f => "port-1byte-lt80",
        0x80..=0xff => "port-1byte-ge80",
        _ => "port-2byte",
    }
}

impl<'a> Visitor for V<'a> {
    fn step<K: Fam>(&mut self, cx: &StepCx<K>) -> Result<(), String> {
        let (post, enr) = match (cx.post, cx.enr) {
            (Some(p), Some(e)) => (p, e),
            _ => return Ok(()),
        };
        let d = describe_step(cx);
        let noncanon = guarded(|| accessors_agree::<K>(enr, post, self.st)).map_err(|p| format!("{d}: accessor panicked: {p}"))?.map_err(|m| format!("{d}: {m}"))?;
        if noncanon {
            self.nontrivial = true;
            self.st.label("raw-not-canonical-for-asked-type");
        }
        let present = |k: &[u8]| post.get(k).is_some();
        if present(b"ip") != (present(b"udp") || present(b"tcp")) || present(b"ip6") != (present(b"udp6") || present(b"tcp6")) {
            self.nontrivial = true;
        }
        // what a typed setter stores is canonical and reads back
        if let (Some(op), CallRes::Ok(_)) = (cx.op, cx.res) {
            match op {
                Op::SetPort { which, port, .. } => {
                    self.nontrivial = true;
                    self.st.label(port_class(*port));
                    if post.get(which.key()).map(|v| v.as_slice()) != Some(&rlp::encode_uint(*port as u64)[..]) {
                        return Err(format!("{d}: stored value is not the canonical encoding of {port}"));
                    }
                    let back = match which {
                        PortKey::Tcp => enr.tcp4(),
                        PortKey::Tcp6 => enr.tcp6(),
                        PortKey::Udp => enr.udp4(),
                        PortKey::Udp6 => enr.udp6(),
                    };
                    if back != Some(*port) {
                        return Err(format!("{d}: reads back {back:?}"));
                    }
                }
                Op::SetSocket { tcp, addr, .. } => {
                    self.nontrivial = true;
                    self.st.label(port_class(addr.port()));
                    let back: Option<SocketAddr> = match (addr, tcp) {
                        (SocketAddr::V4(_), true) => enr.tcp4_socket().map(SocketAddr::V4),
                        (SocketAddr::V4(_), false) => enr.udp4_socket().map(SocketAddr::V4),
                        (SocketAddr::V6(_), true) => enr.tcp6_socket().map(SocketAddr::V6),
                        (SocketAddr::V6(_), false) => enr.udp6_socket().map(SocketAddr::V6),
                    };
                    let want = match addr {
                        SocketAddr::V4(a) => SocketAddr::V4(*a),
                        SocketAddr::V6(a) => SocketAddr::V6(SocketAddrV6::new(*a.ip(), a.port(), 0, 0)),
                    };
                    if back != Some(want) {
                        return Err(format!("{d}: socket reads back {back:?}, set {want:?}"));
                    }
                    let pk: &[u8] = match (addr, tcp) {
                        (SocketAddr::V4(_), true) => b"tcp",
                        (SocketAddr::V4(_), false) => b"udp",
                        (SocketAddr::V6(_), true) => b"tcp6",
                        (SocketAddr::V6(_), false) => b"udp6",
                    };
                    if post.get(pk).map(|v| v.as_slice()) != Some(&rlp::encode_uint(addr.port() as u64)[..]) {
                        return Err(format!("{d}: stored port is not the canonical encoding of {}", addr.port()));
                    }
                }
                Op::SetIp { ip, .. } => {
                    let back = match ip {
                        std::net::IpAddr::V4(_) => enr.ip4().map(std::net::IpAddr::V4),
                        std::net::IpAddr::V6(_) => enr.ip6().map(std::net::IpAddr::V6),
                    };
                    if back != Some(*ip) {
                        return Err(format!("{d}: address reads back {back:?}"));
                    }
                }
                Op::SetClientInfo { name, version, build, .. } => {
                    self.nontrivial = true;
                    if enr.client_info() != Some((name.clone(), version.clone(), build.clone())) {
                        return Err(format!("{d}: client info reads back {:?}", enr.client_info()));
                    }
                }
                _ => {}
            }
        }
        if cx.op.is_none() {
            // builder / decoded: ports given must read back
            if let Init::Builder { calls } | Init::BuilderReuse { calls, .. } = &cx.h.init {
                let mut last: std::collections::HashMap<PortKey, u16> = std::collections::HashMap::new();
                for c in calls {
                    match c {
                        BCall::Port { which, port } => {
                            last.insert(*which, *port);
                        }
                        BCall::AddValue { key, .. } | BCall::AddValueRlp { key, .. } => {
                            for w in PortKey::ALL {
                                if w.key() == key.as_slice() {
                                    last.remove(&w);
                                }
                            }
                        }
                        _ => {}
                    }
                }
                for (w, p) in last {
                    self.st.label(port_class(p));
                    self.nontrivial = true;
                    if post.get(w.key()).map(|v| v.as_slice()) != Some(&rlp::encode_uint(p as u64)[..]) {
                        return Err(format!("{d}: builder stored a non-canonical encoding for port {p}"));
                    }
                }
            }
        }
        Ok(())
    }
}

fn port_history(fam: FamId, which: PortKey, port: u16, path: u8) -> History {
    let keys = history::exhaustive_keys(fam);
    let v4: std::net::Ipv4Addr = "10.0.0.1".parse().unwrap();
    let v6: std::net::Ipv6Addr = "fe80::1".parse().unwrap();
    let (init, ops) = match path {
        0 => (Init::Builder { calls: vec![BCall::Port { which, port }] }, vec![]),
        1 => (Init::Builder { calls: vec![] }, vec![Op::SetPort { which, port, k: 0 }]),
        2 => {
            let addr = match which {
                PortKey::Tcp | PortKey::Udp => SocketAddr::V4(SocketAddrV4::new(v4, port)),
                _ => SocketAddr::V6(SocketAddrV6::new(v6, port, 7, 9)),
            };
            (Init::Builder { calls: vec![] }, vec![Op::SetSocket { tcp: matches!(which, PortKey::Tcp | PortKey::Tcp6), addr, k: 0 }])
        }
        _ => (Init::Decoded { seq: 1, pairs: vec![(which.key().to_vec(), rlp::encode_uint(port as u64))] }, vec![]),
    };
    History { fam, keys, init, ops, fault_at: None, alt_keys: vec![] }
}

impl Property for C14 {
    fn id(&self) -> &'static str {
        "C14"
    }
    fn level(&self) -> &'static str {
        "exploration"
    }
    fn rule(&self) -> String {
        "cases: port sweep = every port value (thorough: all 65536; quick: 0..=1024, all 2^k and 2^k+-1, 4000 further values) x {tcp, tcp6, udp, udp6} x {builder method, typed setter, socket setter, decode of a harness-signed record}; all 64 presence combinations of the six address/port keys; call histories as for C05 (arbitrary raw values under client and custom keys, ill-typed attempts on reserved keys, all built-in families). Oracle after every step: each typed accessor (ip4/ip6, tcp4/tcp6/udp4/udp6, id, client_info, get_decodable for u8/u16/u64/Bytes/String/Vec<Bytes>, deprecated get, get_raw_rlp) equals a reference typed parse of the raw RLP stored under the key (a value exactly when the raw bytes are the canonical encoding of such a value); sockets and reachability flags equal the combination of the same family's ip and port accessors; what a typed setter / builder method stores is the canonical encoding and reads back as the value set. Non-trivial: a step that sets a port / socket / client info, a record where a raw value is not canonical for an asked type, or a presence combination with exactly one of ip/port missing. Distinct by hash of the history.".into()
    }
    fn assumptions(&self) -> Vec<String> {
        vec!["reference typed parse written from the RLP rules (canonical integers, strings, lists of strings)".into()]
    }
    fn entropy_len(&self) -> usize {
        1500
    }
    fn random_cases(&self, quick: bool) -> u64 {
        if quick {
            10_000
        } else {
            250_000
        }
    }
    fn exhaustive_part(&self, quick: bool) -> Option<String> {
        Some(if quick {
            "ports 0..=1024, all 2^k, 2^k-1, 2^k+1 and 4000 further values x 4 keys x 4 paths; all 64 presence combinations".into()
        } else {
            "all 65536 ports x 4 keys x 4 paths; all 64 presence combinations x 5 families".into()
        })
    }
    fn enumerate(&self, quick: bool) -> Box<dyn Iterator<Item = Case> + Send + '_> {
        let ports: Vec<u16> = if quick {
            let mut v: Vec<u16> = (0..=1024).collect();
            for k in 0..16 {
                let p = 1u32 << k;
                v.push(p as u16);
                v.push((p - 1) as u16);
                v.push((p + 1) as u16);
            }
            v.push(65535);
            for j in 0..4000u32 {
                v.push((j.wrapping_mul(2654435761) >> 16) as u16);
            }
            v
        } else {
            (0..=65535u32).map(|p| p as u16).collect()
        };
        let sweep = ports.into_iter().flat_map(|p| {
            PortKey::ALL.into_iter().flat_map(move |w| {
                (0..4u8).map(move |path| {
                    let fam = BUILTIN_FAMS[((p as usize) + path as usize) % BUILTIN_FAMS.len()];
                    Case::Hist(port_history(fam, w, p, path))
                })
            })
        });
        let fams: Vec<FamId> = if quick { vec![FamId::K256] } else { BUILTIN_FAMS.to_vec() };
        let presence = fams.into_iter().flat_map(|fam| {
            (0..64u8).map(move |mask| {
                let mut pairs = Vec::new();
                let all: [(&[u8], Vec<u8>); 6] = [
                    (b"ip", rlp::encode_str(&[10, 0, 0, 1])),
                    (b"ip6", rlp::encode_str(&[1u8; 16])),
                    (b"tcp", rlp::encode_uint(1)),
                    (b"tcp6", rlp::encode_uint(128)),
                    (b"udp", rlp::encode_uint(0)),
                    (b"udp6", rlp::encode_uint(65535)),
                ];
                for (i, (k, v)) in all.iter().enumerate() {
                    if mask & (1 << i) != 0 {
                        pairs.push((k.to_vec(), v.clone()));
                    }
                }
                Case::Hist(History { fam, keys: history::exhaustive_keys(fam), init: Init::Decoded { seq: 3, pairs }, ops: vec![Op::Redecode], fault_at: None, alt_keys: vec![] })
            })
        });
        // a custom key type whose public-key entry collides with a reserved name (`ip6` holds its 4-byte key,
        // which is not an address): the only way an ill-typed value gets under an address key.  Presence masks
        // of the other five fields, then port updates.
        let clash = (0..32u8).map(|mask| {
            let mut calls = Vec::new();
            if mask & 1 != 0 {
                calls.push(BCall::Ip4([10, 0, 0, 1].into()));
            }
            for (bit, which, port) in [(2u8, PortKey::Tcp, 1u16), (4, PortKey::Tcp6, 128), (8, PortKey::Udp, 0), (16, PortKey::Udp6, 65535)] {
                if mask & bit != 0 {
                    calls.push(BCall::Port { which, port });
                }
            }
            let mut s = [0u8; 32];
            s[5] = mask;
            Case::Hist(History {
                fam: FamId::Clash,
                keys: vec![Secret(s)],
                init: Init::Builder { calls },
                ops: vec![Op::SetPort { which: PortKey::Udp6, port: 9, k: 0 }, Op::SetPort { which: PortKey::Tcp6, port: 7, k: 0 }, Op::RemovePort { which: PortKey::Udp6, k: 0 }, Op::CloneSwap],
                fault_at: None,
                alt_keys: vec![],
            })
        });
        let near = history::near_limit_sockets(quick).into_iter().map(Case::Hist);
        Box::new(sweep.chain(presence).chain(clash).chain(near))
    }
    fn fuzz_plans(&self) -> Vec<(&'static str, u64)> {
        vec![("history", 8000)]
    }
    fn gen(&self, c: &mut Choices) -> Case {
        Case::Hist(history::gen_history(c, None))
    }
    fn check(&self, case: &Case, st: &mut Stats) -> Result<(), String> {
        let h = match case {
            Case::Hist(h) => h,
            _ => return Err("C14: wrong case type".into()),
        };
        let mut v = V { st, nontrivial: false };
        run_history(h, false, &mut v)?;
        let nt = v.nontrivial;
        label_history(h, st);
        if nt {
            st.nontrivial(h);
            st.sample(&format!("{}-{}", h.fam.name(), h.ops.first().map(|o| o.name()).unwrap_or("init")), || json!(case));
        }
        Ok(())
    }
    fn health(&self, st: &Stats, _q: bool) -> Result<(), String> {
        for l in ["port-empty-string", "port-1byte-lt80", "port-1byte-ge80", "port-2byte", "raw-not-canonical-for-asked-type"] {
            if st.labels.get(l).copied().unwrap_or(0) < 10 {
                return Err(format!("{l} under-represented"));
            }
        }
        Ok(())
    }
}
