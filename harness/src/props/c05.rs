//! C05 — every record the library hands out is valid (always-signed invariant).
use crate::refmodel::record::KeyType;
use crate::case::*;
use crate::cases::Case;
use crate::choices::Choices;
use crate::engine::{Property, Stats};
use crate::exec::{run_history, CallRes, StepCx, Visitor};
use crate::gen::history;
use crate::keys::{Fam, FamId, ALL_FAMS};
use crate::props::hist::*;
use crate::refmodel::record::node_id_of;
use crate::refmodel::rlp;
use serde_json::json;

pub struct C05;

pub const KNOWN_COMBINED_ED: &str = "combined-ed25519-signer-with-valid-secp256k1-entry";

struct V<'a> {
    st: &'a mut Stats,
    ok_updates: usize,
    interesting: bool,
    stop: bool,
}

impl<'a> Visitor for V<'a> {
    fn step<K: Fam>(&mut self, cx: &StepCx<K>) -> Result<(), String> {
        if self.stop {
            return Ok(());
        }
        if !cx.res.is_ok() {
            if matches!(cx.res, CallRes::Err(..)) {
                if let Some(op) = cx.op {
                    if reserved_via_generic(op) {
                        self.interesting = true;
                    }
                }
            }
            return Ok(()); // failed calls are C06's, panics C03's
        }
        let (post, enr) = match (cx.post, cx.enr) {
            (Some(p), Some(e)) => (p, e),
            _ => return Ok(()),
        };
        self.st.evals(1);
        let fam = cx.fam();
        if let Some(op) = cx.op {
            if op.is_mutator() {
                self.ok_updates += 1;
                if reserved_via_generic(op) || op.signer() != Some(0) || post.enc.len() >= 292 || post.seq >= u64::MAX - 1 {
                    self.interesting = true;
                }
            }
        }
        // known finding: CombinedKey signing with ed25519 while a valid secp256k1 entry is present
        if known_combined_state(fam, post) && !crate::engine::strict() && crate::engine::is_known(KNOWN_COMBINED_ED) {
            if valid_record::<K>(fam, post, enr).is_err() {
                self.st.known(KNOWN_COMBINED_ED);
                self.stop = true;
                return Ok(());
            }
        }
        valid_record::<K>(fam, post, enr).map_err(|e| format!("{}: {e}", describe_step(cx)))?;
        // an update made with key k' re-keys the record
        if let (Some(op), Some(signer)) = (cx.op, cx.signer()) {
            if op.is_mutator() {
                let scheme = fam.scheme();
                let entry = post.get(fam.key_name()).cloned();
                if entry.as_deref() != Some(&rlp::encode_str(&signer.pk)[..]) {
                    return Err(format!("{}: after a successful update the public key entry is not the signing key's", describe_step(cx)));
                }
                if node_id_for(fam, scheme, &signer.pk) != Some(post.node_id) {
                    return Err(format!("{}: after a successful update the node id is not the signing key's", describe_step(cx)));
                }
            }
        }
        Ok(())
    }
}

pub fn check_history(h: &History, st: &mut Stats, case: &Case) -> Result<(), String> {
    let mut v = V { st, ok_updates: 0, interesting: false, stop: false };
    let out = run_history(h, false, &mut v)?;
    let (oku, interesting) = (v.ok_updates, v.interesting);
    label_history(h, st);
    if let Some(a) = &out.aborted {
        st.label(&format!("aborted:{}", a.split(':').next().unwrap_or("")));
    }
    if oku >= 2 && interesting {
        st.nontrivial(h);
        st.sample(&format!("{}-{}", h.fam.name(), if matches!(h.init, Init::Builder { .. }) { "builder" } else { "decoded" }), || json!(case));
    }
    Ok(())
}

impl Property for C05 {
    fn id(&self) -> &'static str {
        "C05"
    }
    fn rule(&self) -> String {
        "cases: call histories = an initial record (Builder with arbitrary method calls, or a harness-signed record decoded at sequence-number and size boundaries) followed by 0..12 calls drawn from all 22 public mutators plus re-decode and clone, with arbitrary arguments (typed values, well-formed / ill-typed / malformed raw RLP, reserved keys through the generic entry points, keys up to 400 bytes), signed with the record's own key or another key of the same scheme; families k256, rust-secp256k1, ed25519, CombinedKey (both variants) and three custom schemes (variable-length signatures of 64..70 bytes, long signatures of 64..322 bytes, a toy scheme with ~21-byte records). Bounded-exhaustive part: all sequences of length <= 2 (quick) / <= 3 (thorough) over an alphabet of 52 concrete operations from 5 initial records. Oracle on every record obtained with Ok: independent signature verification over the reported fields under the key stored in the record, verify(), id = v4, node id = keccak of the key, <= 300 bytes, accepted again by the decoder (and by the reference decoder) with identical fields; after an update the key entry and node id are the signing key's. Non-trivial: >= 2 successful updates and at least one of: signer other than the initial key, reserved key through a generic entry point, result >= 292 bytes, seq >= 2^64-2. Distinct by hash of the history.".into()
    }
    fn assumptions(&self) -> Vec<String> {
        vec![
            "signer keys are of the record's own scheme (the property's domain)".into(),
            "independent verifier: libsecp256k1 + k256 called directly; ed25519-dalek called directly".into(),
        ]
    }
    fn entropy_len(&self) -> usize {
        1500
    }
    fn random_cases(&self, quick: bool) -> u64 {
        if quick {
            8_000
        } else {
            200_000
        }
    }
    fn exhaustive_part(&self, quick: bool) -> Option<String> {
        Some(format!("all operation sequences of length <= {} over the operation alphabet (61 to 65 concrete calls depending on the family, incl. the identity operations clone / re-decode / re-parse / serde / clone_from) from 5 initial records, for {} families", if quick { 2 } else { 3 }, if quick { 3 } else { 6 }))
    }
    fn enumerate(&self, quick: bool) -> Box<dyn Iterator<Item = Case> + Send + '_> {
        if quick {
            Box::new([FamId::K256, FamId::CombinedEd, FamId::Var].into_iter().flat_map(|f| history::exhaustive(f, 2)).chain(history::depth1_rest(&[FamId::K256, FamId::CombinedEd, FamId::Var])).chain(history::long_repeats(true)).chain(history::many_pairs(true)).chain(crate::props::c09::builder_sweep()).map(Case::Hist).chain(crate::props::c02::C02.enumerate(true)))
        } else {
            let d3 = [FamId::K256].into_iter().flat_map(|f| history::exhaustive(f, 3));
            let d2 = ALL_FAMS.into_iter().filter(|f| *f != FamId::K256).flat_map(|f| history::exhaustive(f, 2));
            Box::new(d3.chain(d2).chain(history::long_repeats(false)).chain(history::many_pairs(false)).chain(crate::props::c09::builder_sweep()).map(Case::Hist).chain(crate::props::c02::C02.enumerate(false)))
        }
    }
    fn fuzz_plans(&self) -> Vec<(&'static str, u64)> {
        vec![("history", 10000)]
    }
    fn gen(&self, c: &mut Choices) -> Case {
        if c.chance(40) {
            // "every record obtained with Ok ... from decoding": byte inputs (valid, tampered, structurally
            // mutated and re-signed, incl. records without an id or with another id, signed as they stand)
            crate::props::c02::C02.gen(c)
        } else {
            Case::Hist(history::gen_history(c, None))
        }
    }
    fn check(&self, case: &Case, st: &mut Stats) -> Result<(), String> {
        match case {
            Case::Hist(h) => check_history(h, st, case),
            Case::Wire(w) => {
                // whatever the decoder hands out, under any key type, satisfies the invariant
                for kt in crate::refmodel::record::key_types_in_order(crate::case::case_hash(&w.bytes)) {
                    st.evals(1);
                    let r: Result<bool, String> = crate::with_key_type!(kt, K => {
                        match crate::exec::guarded(|| <enr::Enr<K> as alloy_rlp::Decodable>::decode(&mut w.bytes.as_slice())) {
                            Ok(Ok(e)) => {
                                let s = crate::exec::snap(&e);
                                let fam = match kt {
                                    KeyType::K256 => FamId::K256,
                                    KeyType::Libsecp => FamId::Libsecp,
                                    KeyType::Ed => FamId::Ed,
                                    KeyType::Combined => if secp_valid_entry(&s.pairs) { FamId::CombinedSecp } else { FamId::CombinedEd },
                                };
                                valid_record::<K>(fam, &s, &e).map(|_| true).map_err(|m| format!("[{kt:?}] a record handed out by decode ({}): {m}", w.label))
                            }
                            _ => Ok(false),
                        }
                    });
                    if r? {
                        st.label("wire-accepted");
                        st.nontrivial(&(kt, &w.bytes));
                        st.sample("wire-accepted", || json!(case));
                    }
                }
                Ok(())
            }
            _ => Err("C05: wrong case type".into()),
        }
    }
    fn health(&self, st: &Stats, _q: bool) -> Result<(), String> {
        for f in ALL_FAMS {
            if st.labels.get(&format!("fam:{}", f.name())).copied().unwrap_or(0) < 50 {
                return Err(format!("family {} under-represented", f.name()));
            }
        }
        if st.labels.get("has:other-key-signer").copied().unwrap_or(0) < 200 {
            return Err("too few histories with a re-key".into());
        }
        Ok(())
    }
}
