//! C06 — a failed update leaves the record untouched (atomicity, incl. signing faults).
use crate::case::*;
use crate::cases::Case;
use crate::choices::Choices;
use crate::engine::{Property, Stats};
use crate::exec::{run_history, CallRes, StepCx, Visitor, EK};
use crate::gen::history;
use crate::keys::{Fam, FamId, ALL_FAMS};
use crate::props::hist::*;
use crate::refmodel::crypto::Verdict;
use serde_json::json;

pub struct C06;

struct V<'a> {
    st: &'a mut Stats,
    failures: usize,
    /// (step failed, state after the step) for idx >= 1
    obs: Vec<(bool, crate::exec::Snap)>,
}

impl<'a> Visitor for V<'a> {
    fn step<K: Fam>(&mut self, cx: &StepCx<K>) -> Result<(), String> {
        let (op, pre, post) = match (cx.op, cx.pre, cx.post) {
            (Some(o), Some(a), Some(b)) => (o, a, b),
            _ => {
                if let (None, CallRes::Err(k, _)) = (cx.op, cx.res) {
                    self.st.label(&format!("fail:build/{k:?}"));
                }
                return Ok(());
            }
        };
        self.obs.push((matches!(cx.res, CallRes::Err(..)), post.clone()));
        let k = match cx.res {
            CallRes::Err(k, _) => *k,
            _ => return Ok(()),
        };
        self.st.evals(1);
        self.failures += 1;
        self.st.label(&format!("fail:{}/{:?}", op.name(), k));
        let d = describe_step(cx);
        if post.seq != pre.seq {
            return Err(format!("{d}: sequence number changed from {} to {} by a failed call", pre.seq, post.seq));
        }
        if post.pairs != pre.pairs {
            return Err(format!(
                "{d}: key/value pairs changed by a failed call\n  before {:?}\n  after  {:?}",
                crate::libio::hexpairs(&pre.pairs),
                crate::libio::hexpairs(&post.pairs)
            ));
        }
        if post.sig != pre.sig {
            return Err(format!("{d}: signature changed by a failed call"));
        }
        if post.node_id != pre.node_id {
            return Err(format!("{d}: node id changed by a failed call"));
        }
        if post.enc != pre.enc {
            return Err(format!("{d}: encoding changed by a failed call"));
        }
        if post.pk != pre.pk {
            return Err(format!("{d}: public key changed by a failed call"));
        }
        // it still verifies (only meaningful when it verified before)
        if pre.verify == Ok(true) {
            if post.verify != Ok(true) {
                return Err(format!("{d}: the record no longer verifies after a failed call"));
            }
            if independent_verify(cx.fam(), pre) == Verdict::Valid && independent_verify(cx.fam(), post) != Verdict::Valid {
                return Err(format!("{d}: the record no longer verifies after a failed call (independent verifier)"));
            }
        }
        Ok(())
    }
}

fn run_one(h: &History, st: &mut Stats) -> Result<(usize, usize), String> {
    let mut v = V { st, failures: 0, obs: Vec::new() };
    let out = run_history(h, true, &mut v)?;
    let (failures, obs) = (v.failures, v.obs);
    // the same history applied WITHOUT observing the record before the failing call (observation can
    // mask lazily cached state): after the failed call the record must still be coherent and equal
    // to what the observed run holds
    if h.fault_at.is_none() {
        let mut done = 0;
        for (i, (failed, snap)) in obs.iter().enumerate() {
            if !*failed || done >= 2 {
                continue;
            }
            done += 1;
            if let Some((res, cold)) = crate::exec::run_blind(h, i + 1, (i % 3) as u8)? {
                st.evals(1);
                st.label("blind-run-to-failing-call");
                if !matches!(res.last(), Some(CallRes::Err(..))) {
                    continue; // not the same course of events (randomised signatures never change it; be safe)
                }
                cold_consistent(&cold, Some(snap)).map_err(|m| format!("step {} ({}) failed; {m}", i + 1, h.ops[i].name()))?;
            }
        }
    }
    Ok((out.sign_calls, failures))
}

impl Property for C06 {
    fn id(&self) -> &'static str {
        "C06"
    }
    fn level(&self) -> &'static str {
        "fault_enumeration"
    }
    fn rule(&self) -> String {
        "cases: call histories as for C05 (all 22 mutators, arbitrary arguments incl. ill-typed reserved values, id removal / other id, oversize values, sequence number 2^64-1, keys of every family incl. the variable-length-signature scheme), each run once fault-free and then re-run with an injected signer failure at EVERY signing call of the history (fault key wrapping the real key); bounded-exhaustive part: all sequences of length <= 2 over the operation alphabet (61 to 65 concrete calls depending on the family, incl. the identity operations clone / re-decode / re-parse / serde / clone_from) from 5 initial records, again with every fault position. Oracle: whenever a call returns Err, the record is observably identical to the pre-state (seq, node id, signature, pairs, encoding, public key) and still verifies (library and independent verifier). Non-trivial: a history in which at least one update fails (every update would have changed at least the sequence number, so atomicity is at stake); the evidence lists the (mutator x error cause) cells reached. Distinct by hash of the history.".into()
    }
    fn assumptions(&self) -> Vec<String> {
        vec![
            "signer failures are injected through an EnrKey wrapper (hook: feature verif exports SigningError)".into(),
            "panics inside a mutator are C03's and only end the history here".into(),
        ]
    }
    fn entropy_len(&self) -> usize {
        1500
    }
    fn random_cases(&self, quick: bool) -> u64 {
        if quick {
            5_000
        } else {
            120_000
        }
    }
    fn exhaustive_part(&self, quick: bool) -> Option<String> {
        Some(format!("every signing-call position of every explored history is failed once; all sequences of length <= {} over the alphabet", if quick { 2 } else { 3 }))
    }
    fn enumerate(&self, quick: bool) -> Box<dyn Iterator<Item = Case> + Send + '_> {
        if quick {
            Box::new([FamId::K256, FamId::Var].into_iter().flat_map(|f| history::exhaustive(f, 2)).chain(history::depth1_rest(&[FamId::K256, FamId::Var])).map(Case::Hist))
        } else {
            let d3 = [FamId::K256].into_iter().flat_map(|f| history::exhaustive(f, 3));
            let d2 = ALL_FAMS.into_iter().filter(|f| *f != FamId::K256).flat_map(|f| history::exhaustive(f, 2));
            Box::new(d3.chain(d2).map(Case::Hist))
        }
    }
    fn fuzz_plans(&self) -> Vec<(&'static str, u64)> {
        vec![("history", 5000)]
    }
    fn gen(&self, c: &mut Choices) -> Case {
        Case::Hist(history::gen_history_cross(c))
    }
    fn check(&self, case: &Case, st: &mut Stats) -> Result<(), String> {
        let h = match case {
            Case::Hist(h) => h,
            _ => return Err("C06: wrong case type".into()),
        };
        let mut failures;
        if h.fault_at.is_some() {
            failures = run_one(h, st)?.1;
        } else {
            let (n, f) = run_one(h, st)?;
            failures = f;
            st.label_n("fault-positions", n as u64);
            for i in 1..=n {
                let mut hf = h.clone();
                hf.fault_at = Some(i);
                let (_, f) = run_one(&hf, st).map_err(|e| format!("with the signer failing at signing call {i}: {e}"))?;
                failures += f;
            }
        }
        label_history(h, st);
        if failures > 0 {
            st.nontrivial(h);
            st.sample(&format!("{}-{}", h.fam.name(), h.ops.last().map(|o| o.name()).unwrap_or("none")), || json!(case));
        }
        Ok(())
    }
    fn health(&self, st: &Stats, _q: bool) -> Result<(), String> {
        let has = |m: &str, k: EK| st.labels.get(&format!("fail:{m}/{k:?}")).copied().unwrap_or(0) > 0;
        for m in MUTATOR_NAMES {
            if !has(m, EK::Signing) {
                return Err(format!("no signer fault observed for {m}"));
            }
            if m != "set_seq" && !has(m, EK::SeqHigh) {
                return Err(format!("no sequence overflow observed for {m}"));
            }
        }
        for m in ["insert", "insert_raw_rlp", "set_client_info", "set_udp_socket", "set_tcp_socket", "remove_insert", "set_ip", "set_seq", "set_udp4", "set_tcp6"] {
            if !has(m, EK::Size) {
                return Err(format!("no size failure observed for {m}"));
            }
        }
        for m in ["insert", "insert_raw_rlp", "remove_insert"] {
            if !has(m, EK::InvalidRlp) {
                return Err(format!("no ill-typed failure observed for {m}"));
            }
        }
        for m in ["insert", "remove_key", "remove_insert"] {
            if !has(m, EK::UnsupportedId) {
                return Err(format!("no unsupported-id failure observed for {m}"));
            }
        }
        Ok(())
    }
}
