pub mod c01;
pub mod c02;
pub mod c03;
pub mod c04;
pub mod c05;
pub mod c06;
pub mod c07;
pub mod c08;
pub mod c09;
pub mod c10;
pub mod c11;
pub mod c12;
pub mod c13;
pub mod c14;
pub mod c15;
pub mod c16;
#[cfg(feature = "builtin")]
pub mod c17;
#[cfg(not(feature = "builtin"))]
#[path = "c17_stub.rs"]
pub mod c17;

pub mod hist;
use crate::engine::Property;

pub fn by_id(id: &str) -> Option<Box<dyn Property>> {
    Some(match id {
        "C01" => Box::new(c01::C01),
        "C02" => Box::new(c02::C02),
        "C03" => Box::new(c03::C03),
        "C04" => Box::new(c04::C04),
        "C05" => Box::new(c05::C05),
        "C06" => Box::new(c06::C06),
        "C07" => Box::new(c07::C07),
        "C08" => Box::new(c08::C08),
        "C09" => Box::new(c09::C09),
        "C10" => Box::new(c10::C10),
        "C11" => Box::new(c11::C11),
        "C12" => Box::new(c12::C12),
        "C13" => Box::new(c13::C13),
        "C14" => Box::new(c14::C14),
        "C15" => Box::new(c15::C15),
        "C16" => Box::new(c16::C16),
        "C17" => Box::new(c17::C17),
        _ => return None,
    })
}
pub const ALL_IDS: [&str; 17] = ["C01", "C02", "C03", "C04", "C05", "C06", "C07", "C08", "C09", "C10", "C11", "C12", "C13", "C14", "C15", "C16", "C17"];
