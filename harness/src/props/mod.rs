pub mod c01;
pub mod c02;
pub mod c12;
pub mod c13;
pub mod c16;
pub mod c17;

use crate::engine::Property;

pub fn by_id(id: &str) -> Option<Box<dyn Property>> {
    Some(match id {
        "C01" => Box::new(c01::C01),
        "C02" => Box::new(c02::C02),
        "C12" => Box::new(c12::C12),
        "C13" => Box::new(c13::C13),
        "C16" => Box::new(c16::C16),
        "C17" => Box::new(c17::C17),
        _ => return None,
    })
}
pub const ALL_IDS: [&str; 2] = ["C16", "C17"];
