pub mod c16;
pub mod c17;

use crate::engine::Property;

pub fn by_id(id: &str) -> Option<Box<dyn Property>> {
    Some(match id {
        "C16" => Box::new(c16::C16),
        "C17" => Box::new(c17::C17),
        _ => return None,
    })
}
pub const ALL_IDS: [&str; 2] = ["C16", "C17"];
