//! C13 — decoding is prefix-local: records can be read from a stream or list.
use crate::cases::{Case, StreamCase};
use crate::choices::{det_entropy, Choices};
use crate::engine::{Property, Stats};
use crate::gen::wire;
use crate::libio::{self, LibOut};
use crate::refmodel::record::ALL_KEY_TYPES;
use crate::refmodel::rlp;
use serde_json::json;

pub struct C13;

fn complete_item(b: &[u8]) -> bool {
    matches!(rlp::header_at(b), Ok((_, h, p)) if h + p == b.len())
}

fn gen_item_bytes(c: &mut Choices, valid_only: bool) -> Vec<u8> {
    if valid_only || c.chance(150) {
        let mut d = wire::gen_valid_draft(c);
        if d.size_with_sig(64) > 300 {
            wire::solve_size(&mut d, 300, c);
        }
        wire::valid_bytes(&d)
    } else if c.chance(20) {
        // a complete item that is not a record at all
        match c.below(5) {
            0 => vec![c.u8() & 0x7f],
            1 => vec![0x80],
            2 => vec![0xc0],
            3 => crate::refmodel::rlp::encode_str(&c.bytes(3)),
            _ => crate::refmodel::rlp::encode(&crate::gen::wire::gen_item(c, 2)),
        }
    } else {
        let w = crate::props::c02::gen_struct_case(c, None);
        if complete_item(&w.bytes) {
            w.bytes
        } else {
            wire::valid_bytes(&wire::gen_valid_draft(c))
        }
    }
}

fn gen_suffix(c: &mut Choices) -> Vec<u8> {
    match c.below(7) {
        0 => vec![],
        1 => vec![c.u8()],
        2 => {
            let n = c.range(1, 1000);
            vec![0u8; n]
        }
        3 => {
            let n = c.range(1, 1000);
            c.bytes(n.min(64)).into_iter().cycle().take(n).collect()
        }
        4 => wire::valid_bytes(&wire::gen_valid_draft(c)),
        5 => {
            let v = wire::valid_bytes(&wire::gen_valid_draft(c));
            let n = c.below(v.len());
            v[..n].to_vec()
        }
        _ => {
            let n = c.range(200, 400);
            vec![0xc0; n]
        }
    }
}

fn gen_case(c: &mut Choices) -> StreamCase {
    let shape = c.below(10);
    let (n, as_list) = match shape {
        0..=4 => (1, false),
        5 | 6 => (c.range(2, 8), false),
        7 | 8 => (c.range(1, 8), true),
        _ => (0, true),
    };
    let mut items = Vec::new();
    for i in 0..n {
        let last = i + 1 == n;
        items.push(gen_item_bytes(c, !last && !as_list));
    }
    let suffix = gen_suffix(c);
    StreamCase { items, suffix, as_list, label: format!("{}x{}", if as_list { "list" } else { "stream" }, n) }
}

impl Property for C13 {
    fn id(&self) -> &'static str {
        "C13"
    }
    fn rule(&self) -> String {
        "cases: 1..8 complete RLP items (independently signed valid records, or re-signed structural mutants that are complete items) followed by a suffix of 0..1000 bytes (empty, one byte, zeros, random, another record, a truncated record, a run of 0xc0); either concatenated (stream) or wrapped in an RLP list (Vec<Enr<K>>::decode); all four key types. Oracle (metamorphic): decoding item||suffix has the outcome of decoding the item alone (same record fields and buffer advanced by exactly len(item) on success, the same error value on failure); sequential decoding of a stream and Vec::decode of a list return the records obtained individually (Vec::decode fails iff one item fails). Non-trivial: non-empty suffix with len(item||suffix) > 300 >= len(item), or >= 2 records. Distinct by hash of the case.".into()
    }
    fn assumptions(&self) -> Vec<String> {
        vec!["'complete RLP item' is judged by the reference header parser".into()]
    }
    fn entropy_len(&self) -> usize {
        4096
    }
    fn random_cases(&self, quick: bool) -> u64 {
        if quick {
            10_000
        } else {
            250_000
        }
    }
    fn enumerate(&self, quick: bool) -> Box<dyn Iterator<Item = Case> + Send + '_> {
        // every suffix length 0..=40 and around the size gate for a few valid records
        let nrec = if quick { 4u64 } else { 40 };
        let it = (0..nrec).flat_map(|j| {
            let e = det_entropy("c13/suffix", j, 1400);
            let mut c = Choices::new(&e);
            let item = gen_item_bytes(&mut c, true);
            let l = item.len();
            let lens: Vec<usize> = (0..=40).chain((300usize.saturating_sub(l + 3))..=(303usize.saturating_sub(l).max(1))).chain([500, 1000])
                // total buffer lengths around multiples of 64 KiB (length arithmetic narrowed to 16 bits)
                .chain([65535usize.saturating_sub(l), 65536usize.saturating_sub(l), 65537usize.saturating_sub(l), 65536 - 1, 65536, 65536 + 1, 65536 + l / 2, 131072usize.saturating_sub(l), 131072 + 3])
                .collect();
            lens.into_iter().map(move |sl| {
                Case::Stream(StreamCase { items: vec![item.clone()], suffix: vec![(sl % 251) as u8; sl], as_list: false, label: "suffix-sweep".into() })
            })
        });
        // every 1-byte complete item (0x00..=0x7f, 0x80, 0xc0) and a few other tiny items that are not
        // records at all, alone / followed by one byte / by a record / in a stream and a list
        let mut tiny: Vec<Vec<u8>> = (0u8..=0x80).map(|b| vec![b]).collect();
        tiny.push(vec![0xc0]);
        tiny.push(vec![0x81, 0x80]);
        tiny.push(vec![0x82, 1, 2]);
        tiny.push(vec![0xc1, 0x01]);
        tiny.push(vec![0xc2, 0x80, 0x80]);
        tiny.push(vec![0xb8, 0x38].into_iter().chain(std::iter::repeat(7u8).take(0x38)).collect());
        let rec = {
            let e = det_entropy("c13/tiny", 0, 1400);
            gen_item_bytes(&mut Choices::new(&e), true)
        };
        let tiny_cases = tiny.into_iter().flat_map(move |t| {
            let rec = rec.clone();
            let sufs: Vec<Vec<u8>> = vec![vec![], vec![0x00], vec![0xff], rec.clone(), vec![0u8; 400]];
            let mut v: Vec<Case> = sufs
                .into_iter()
                .map(|s| Case::Stream(StreamCase { items: vec![t.clone()], suffix: s, as_list: false, label: "tiny-item".into() }))
                .collect();
            v.push(Case::Stream(StreamCase { items: vec![rec.clone(), t.clone()], suffix: vec![1, 2, 3], as_list: false, label: "tiny-item".into() }));
            v.push(Case::Stream(StreamCase { items: vec![rec.clone(), t.clone(), rec.clone()], suffix: vec![], as_list: true, label: "tiny-item".into() }));
            v.into_iter()
        });
        // other REPRESENTATIONS of a valid record handed to the binary decoder: every text character below 0x80
        // is a complete one-byte RLP item, so the text form is "an item followed by other bytes"
        let rec2 = {
            let e = det_entropy("c13/tiny", 0, 1400);
            gen_item_bytes(&mut Choices::new(&e), true)
        };
        let b64 = crate::refmodel::b64::encode(&rec2);
        let texts: Vec<String> = vec![format!("enr:{b64}"), b64.clone(), crate::hexser::hex(&rec2), format!("0x{}", crate::hexser::hex(&rec2)), format!("\"enr:{b64}\"")];
        let repr_cases = texts.into_iter().flat_map(move |t| {
            let b = t.into_bytes();
            vec![
                Case::Stream(StreamCase { items: vec![vec![b[0]]], suffix: b[1..].to_vec(), as_list: false, label: "other-representation".into() }),
                Case::Stream(StreamCase { items: vec![rec2.clone(), vec![b[0]]], suffix: b[1..].to_vec(), as_list: false, label: "other-representation".into() }),
            ]
            .into_iter()
        });
        Box::new(it.chain(tiny_cases).chain(repr_cases))
    }
    fn fuzz_plans(&self) -> Vec<(&'static str, u64)> {
        vec![("wire_raw", 30000), ("wire_struct", 10000)]
    }
    fn gen(&self, c: &mut Choices) -> Case {
        Case::Stream(gen_case(c))
    }
    fn check(&self, case: &Case, st: &mut Stats) -> Result<(), String> {
        let s = match case {
            Case::Stream(s) => s,
            _ => return Err("C13: wrong case type".into()),
        };
        if s.items.iter().any(|i| !complete_item(i)) {
            st.unspecified();
            return Ok(());
        }
        let total_items: usize = s.items.iter().map(|i| i.len()).sum();
        for kt in ALL_KEY_TYPES {
            let alone: Vec<LibOut> = s.items.iter().map(|i| libio::decode(kt, i)).collect();
            st.evals(alone.len() as u64 + 1);
            for (i, a) in alone.iter().enumerate() {
                if let LibOut::Ok(_, n) = a {
                    if *n != s.items[i].len() {
                        return Err(format!("[{kt:?}] decoding item {i} alone consumed {n} of {} bytes", s.items[i].len()));
                    }
                }
            }
            if s.as_list {
                let mut buf = Vec::new();
                rlp::enc_list_payload(&mut buf, &s.items.concat());
                let list_len = buf.len();
                buf.extend_from_slice(&s.suffix);
                let got = libio::decode_vec(kt, &buf).map_err(|p| format!("[{kt:?}] Vec::decode panicked: {p}"))?;
                let all_ok = alone.iter().all(|a| a.is_ok());
                match (got, all_ok) {
                    (Ok((recs, consumed)), true) => {
                        if recs.len() != alone.len() {
                            return Err(format!("[{kt:?}] list of {} records decoded to {}", alone.len(), recs.len()));
                        }
                        for (i, r) in recs.iter().enumerate() {
                            if Some(r) != alone[i].snap() {
                                return Err(format!("[{kt:?}] record {i} decoded from a list differs from the record decoded alone"));
                            }
                        }
                        if consumed != list_len {
                            return Err(format!("[{kt:?}] Vec::decode consumed {consumed}, list is {list_len} bytes"));
                        }
                    }
                    (Err(_), false) => {}
                    (Ok(_), false) => return Err(format!("[{kt:?}] a list containing an invalid record decoded successfully")),
                    (Err(e), true) => {
                        return Err(format!(
                            "[{kt:?}] RLP list of {} individually valid records ({} bytes) fails to decode: {e}",
                            alone.len(),
                            list_len
                        ))
                    }
                }
            } else {
                let mut buf = s.items.concat();
                buf.extend_from_slice(&s.suffix);
                let got = libio::decode_seq(kt, &buf, s.items.len());
                for (i, a) in alone.iter().enumerate() {
                    let g = got.get(i);
                    match (a, g) {
                        (LibOut::Ok(sa, _), Some(LibOut::Ok(sg, n))) => {
                            if sa != sg {
                                return Err(format!("[{kt:?}] record {i} read from a stream differs from the record decoded alone"));
                            }
                            if *n != s.items[i].len() {
                                return Err(format!("[{kt:?}] record {i}: buffer advanced by {n}, item is {} bytes", s.items[i].len()));
                            }
                        }
                        (LibOut::Ok(..), Some(o)) => {
                            return Err(format!(
                                "[{kt:?}] item {i} ({} bytes) decodes alone but not when followed by {} more bytes: {o:?}",
                                s.items[i].len(),
                                buf.len() - s.items[..=i].iter().map(|x| x.len()).sum::<usize>()
                            ))
                        }
                        (LibOut::Ok(..), None) => return Err(format!("[{kt:?}] stream decoding stopped before item {i}")),
                        (_, Some(LibOut::Ok(..))) => {
                            return Err(format!("[{kt:?}] item {i} is rejected alone but accepted when followed by other bytes"))
                        }
                        (_, Some(LibOut::Panic(p))) => return Err(format!("[{kt:?}] decode panicked: {p}")),
                        (LibOut::Panic(p), _) => return Err(format!("[{kt:?}] decode panicked: {p}")),
                        (LibOut::Err(ea), Some(LibOut::Err(eg))) => {
                            // "the same outcome": the same error value, whatever follows the item
                            if ea != eg {
                                return Err(format!(
                                    "[{kt:?}] item {i} ({} bytes) fails with {ea} alone but with {eg} when followed by {} more bytes",
                                    s.items[i].len(),
                                    buf.len() - s.items[..=i].iter().map(|x| x.len()).sum::<usize>()
                                ));
                            }
                            break; // both failed identically: the stream ends here
                        }
                        (_, _) => break,
                    }
                }
            }
        }
        st.label(&s.label);
        let first = s.items.first().map(|i| i.len()).unwrap_or(0);
        let over_gate = !s.suffix.is_empty() && s.items.len() == 1 && first <= 300 && first + s.suffix.len() > 300;
        if over_gate {
            st.label("single-item-buffer-over-300");
        }
        if s.items.len() >= 2 {
            st.label(if total_items > 300 { "multi-total-over-300" } else { "multi-total-le-300" });
        }
        if over_gate || s.items.len() >= 2 {
            st.nontrivial(case);
            st.sample(&format!("{}-{}", if s.as_list { "list" } else { "stream" }, if s.items.len() >= 2 { "multi" } else { "suffix" }), || json!(case));
        }
        Ok(())
    }
    fn health(&self, st: &Stats, _q: bool) -> Result<(), String> {
        for l in ["single-item-buffer-over-300", "multi-total-over-300"] {
            if st.labels.get(l).copied().unwrap_or(0) < 50 {
                return Err(format!("label {l} under-represented"));
            }
        }
        Ok(())
    }
}
