//! C12 — text and JSON forms are canonical and strictly parsed.
use crate::cases::{Case, TextCase};
use crate::choices::{det_entropy, Choices};
use crate::engine::{Property, Stats};
use crate::gen::wire;
use crate::libio::{self, LibOut};
use crate::refmodel::b64;
use crate::refmodel::record::{ref_parse_text, RefOutcome, ALL_KEY_TYPES};
use crate::refmodel::rlp;
use serde_json::json;

pub struct C12;

/// text / Display / JSON forms of a record of ANY key family (custom schemes included: their records
/// can be much shorter or longer than those of the built-in types) and their parse-back
pub fn text_forms_ok<K: crate::keys::Fam>(e: &enr::Enr<K>, s: &crate::exec::Snap) -> Result<(), String> {
    use crate::exec::{guarded, snap};
    let canon = format!("enr:{}", b64::encode(&s.enc));
    let t = guarded(|| e.to_base64()).map_err(|p| format!("to_base64 panicked: {p}"))?;
    if t != canon {
        return Err(format!("to_base64() = {t:?}, expected {canon:?}"));
    }
    let d = format!("{e}");
    if d != canon {
        return Err(format!("Display = {d:?}, expected {canon:?}"));
    }
    let j = serde_json::to_string(e).map_err(|x| format!("serialize: {x}"))?;
    if j != serde_json::to_string(&canon).unwrap() {
        return Err(format!("JSON = {j}, expected the quoted text form"));
    }
    for (what, text) in [("text", canon.clone()), ("text without prefix", canon[4..].to_string())] {
        match guarded(|| text.parse::<enr::Enr<K>>()).map_err(|p| format!("parse panicked: {p}"))? {
            Ok(e2) => {
                if e2 != *e || snap(&e2) != *s {
                    return Err(format!("parsing the {what} gives a different record"));
                }
            }
            Err(m) => return Err(format!("the canonical {what} {text:?} of a {}-byte record is rejected: {m}", s.enc.len())),
        }
    }
    match guarded(|| serde_json::from_str::<enr::Enr<K>>(&j)).map_err(|p| format!("deserialize panicked: {p}"))? {
        Ok(e2) if e2 == *e => {}
        Ok(_) => return Err("JSON parses to a different record".into()),
        Err(m) => return Err(format!("the JSON form of a {}-byte record is rejected: {m}", s.enc.len())),
    }
    for bad in [format!("{canon}="), format!("ENR:{}", &canon[4..]), format!("{canon} "), format!("enr:enr:{}", &canon[4..])] {
        if let Ok(Ok(_)) = guarded(|| bad.parse::<enr::Enr<K>>()) {
            return Err(format!("non-canonical text {bad:?} is accepted"));
        }
    }
    Ok(())
}

struct TextV<'a> {
    st: &'a mut Stats,
    n: usize,
    stop: bool,
}
impl<'a> crate::exec::Visitor for TextV<'a> {
    fn step<K: crate::keys::Fam>(&mut self, cx: &crate::exec::StepCx<K>) -> Result<(), String> {
        if self.stop || !cx.res.is_ok() {
            return Ok(());
        }
        let (post, e) = match (cx.post, cx.enr) {
            (Some(p), Some(e)) => (p, e),
            _ => return Ok(()),
        };
        if crate::props::hist::known_combined_state(cx.fam(), post)
            && !crate::engine::strict()
            && crate::engine::is_known(crate::props::c05::KNOWN_COMBINED_ED)
        {
            self.st.known(crate::props::c05::KNOWN_COMBINED_ED);
            self.stop = true;
            return Ok(());
        }
        self.st.evals(4);
        self.n += 1;
        self.st.label(match post.enc.len() {
            0..=55 => "record-size:short-list-header",
            56..=255 => "record-size:1-byte-length",
            _ => "record-size:2-byte-length",
        });
        text_forms_ok::<K>(e, post).map_err(|m| format!("{}: {m}", crate::props::hist::describe_step(cx)))
    }
}

pub const TEXT_MUTATIONS: [&str; 16] = [
    "valid",
    "valid-no-prefix",
    "pad1",
    "pad2",
    "append-char",
    "insert-char",
    "alphabet-swap",
    "prefix-variant",
    "trailing-bits",
    "append-bytes",
    "append-record",
    "truncate-text",
    "random-string",
    "invalid-record",
    "whitespace",
    "double-encode",
];

const FOREIGN: [char; 14] = ['+', '/', '=', ' ', '\n', '\t', '\0', 'é', '.', ':', '~', '*', '\r', ','];
const ALPHA: &[u8] = b"ABCDEFGHIJKLMNOPQRSTUVWXYZabcdefghijklmnopqrstuvwxyz0123456789-_";

/// Replacement / insertion of multi-byte characters (2, 3 and 4 UTF-8 bytes) and of a few ASCII
/// characters at every character position of the first 12 characters (the region where the parser
/// looks for the prefix with byte offsets), and multi-byte characters at every 7th position of the
/// rest, for the prefixed and the prefix-less text of one record.
pub fn head_edits() -> Vec<TextCase> {
    let e = det_entropy("c12/base", 2, 2000);
    let base = gen_case(&mut Choices::new(&e), Some("valid")).s;
    let mut out = Vec::new();
    for text in [base.clone(), base[4..].to_string()] {
        let chars: Vec<char> = text.chars().collect();
        let positions: Vec<usize> = (0..chars.len().min(12)).chain((12..chars.len()).step_by(7)).chain([chars.len() - 1]).collect();
        for pos in positions {
            // `lookalike`: non-ASCII characters whose code point has the replaced character in its low byte
            // (a parser that narrows `char` to `u8` reads them as that character)
            let orig = chars[pos] as u32;
            let look: Vec<char> = [0x100u32, 0x4e00, 0x1f600, 0x10000].iter().filter_map(|hi| char::from_u32(hi | (orig & 0xff))).collect();
            for ch in ['é', '€', '𝄞', '\u{80}', ':', 'e', ' '].into_iter().chain(look) {
                if pos >= 12 && ch.len_utf8() == 1 {
                    continue;
                }
                let mut a = chars.clone();
                a[pos] = ch;
                let mut b = chars.clone();
                b.insert(pos, ch);
                out.push(TextCase { s: a.into_iter().collect(), label: "head-edit".into() });
                out.push(TextCase { s: b.into_iter().collect(), label: "head-edit".into() });
            }
        }
        let mut t = text.clone();
        t.push('€');
        out.push(TextCase { s: t, label: "head-edit".into() });
    }
    // the text wrapped in a PAIR of characters (two coordinated edits: one at each end)
    for (l, r) in [("\"", "\""), ("'", "'"), ("(", ")"), ("[", "]"), ("<", ">"), ("{", "}"), (" ", " "), ("\n", "\n"), ("`", "`"), ("\u{feff}", ""), ("", "\0"), ("enr:", ""), ("\"", ""), ("", "\"")] {
        out.push(TextCase { s: format!("{l}{base}{r}"), label: "wrapped".into() });
        out.push(TextCase { s: format!("{l}{}{r}", &base[4..]), label: "wrapped".into() });
        out.push(TextCase { s: format!("enr:{l}{}{r}", &base[4..]), label: "wrapped".into() });
    }
    // very long texts: the valid text followed by 10^4 / 10^6 symbols, a megabyte of symbols, a valid
    // text repeated 3000 times, 300 KB of padding
    out.push(TextCase { s: format!("{base}{}", "A".repeat(10_000)), label: "long-text".into() });
    out.push(TextCase { s: format!("{base}{}", "-".repeat(1_000_000)), label: "long-text".into() });
    out.push(TextCase { s: "A".repeat(1_048_577), label: "long-text".into() });
    out.push(TextCase { s: base.repeat(3000), label: "long-text".into() });
    out.push(TextCase { s: format!("{base}{}", "=".repeat(300_000)), label: "long-text".into() });
    out.push(TextCase { s: format!("enr:{}", "_".repeat(400)), label: "long-text".into() });
    out.push(TextCase { s: format!("enr:{}", "_".repeat(401)), label: "long-text".into() });
    for s in ["é", "€", "𝄞", "en€", "enr€", "enré", "e𝄞", "€€", "enr:€", "enr:é", "abé", "ab€x", "a𝄞"] {
        out.push(TextCase { s: s.to_string(), label: "head-edit".into() });
    }
    out
}

fn gen_case(c: &mut Choices, forced: Option<&'static str>) -> TextCase {
    let which: &'static str = forced.unwrap_or_else(|| *c.pick(&TEXT_MUTATIONS[..]));
    let d = wire::gen_valid_draft(c);
    let mut d = d;
    if d.size_with_sig(64) > 300 {
        wire::solve_size(&mut d, 296 + c.below(5), c);
    }
    let rec = wire::valid_bytes(&d);
    let body = b64::encode(&rec);
    let s = match which {
        "valid" => format!("enr:{body}"),
        "valid-no-prefix" => body,
        "pad1" => format!("enr:{body}="),
        "pad2" => format!("enr:{body}=="),
        "append-char" => {
            let ch = if c.bool() { *c.pick(ALPHA) as char } else { *c.pick(&FOREIGN[..]) };
            format!("enr:{body}{ch}")
        }
        "insert-char" => {
            let ch = if c.chance(80) { *c.pick(ALPHA) as char } else { *c.pick(&FOREIGN[..]) };
            let pos = c.below(body.len() + 1);
            let mut b: Vec<char> = body.chars().collect();
            b.insert(pos, ch);
            format!("enr:{}", b.into_iter().collect::<String>())
        }
        "alphabet-swap" => {
            // make sure the text contains '-' or '_': pad the record search is not needed; swap whatever is there,
            // and if nothing is there replace one symbol by its standard-alphabet twin of value 62/63
            let mut t = body.replace('-', "+").replace('_', "/");
            if t == body {
                let pos = c.below(t.len());
                let mut b: Vec<char> = t.chars().collect();
                b[pos] = if c.bool() { '+' } else { '/' };
                t = b.into_iter().collect();
            }
            format!("enr:{t}")
        }
        "prefix-variant" => {
            let p = *c.pick(&["ENR:", "Enr:", "enr:enr:", "enr", " enr:", "enr: ", "enr;", "nr:", "enr:\n", "eNr:", "enr::"]);
            format!("{p}{body}")
        }
        "trailing-bits" => {
            // alter the last symbol so that unused trailing bits are set
            let mut b: Vec<u8> = body.clone().into_bytes();
            let n = b.len();
            let idx = ALPHA.iter().position(|x| *x == b[n - 1]).unwrap_or(0);
            let unused = match n % 4 {
                2 => 4,
                3 => 2,
                _ => 0,
            };
            if unused > 0 {
                let add = 1 + c.below((1 << unused) - 1);
                b[n - 1] = ALPHA[(idx & !((1 << unused) - 1)) | add];
            } else {
                // no unused bits: make the length = 1 mod 4 instead (never valid)
                b.push(ALPHA[c.below(64)]);
            }
            format!("enr:{}", String::from_utf8(b).unwrap())
        }
        "append-bytes" => {
            let n = c.range(1, 6);
            let mut r = rec.clone();
            r.extend(c.bytes(n));
            format!("enr:{}", b64::encode(&r))
        }
        "append-record" => {
            let mut r = rec.clone();
            let second = if c.bool() { rec.clone() } else { wire::valid_bytes(&wire::gen_valid_draft(c)) };
            r.extend_from_slice(&second);
            format!("enr:{}", b64::encode(&r))
        }
        "truncate-text" => {
            let n = c.below(body.len());
            format!("enr:{}", &body[..n])
        }
        "random-string" => {
            const CS: &[u8] = b"ABCabc019-_+/= enr:\n";
            let n = c.below(80);
            (0..n).map(|_| *c.pick(CS) as char).collect()
        }
        "invalid-record" => {
            let w = crate::props::c02::gen_struct_case(c, None);
            format!("enr:{}", b64::encode(&w.bytes))
        }
        "whitespace" => {
            let ws = *c.pick(&[" ", "\n", "\t", "\r\n"]);
            match c.below(3) {
                0 => format!("{ws}enr:{body}"),
                1 => format!("enr:{body}{ws}"),
                _ => format!("enr:{ws}{body}"),
            }
        }
        "double-encode" => format!("enr:{}", b64::encode(format!("enr:{body}").as_bytes())),
        _ => format!("enr:{body}"),
    };
    TextCase { s, label: which.to_string() }
}

/// the string is valid strict base64url text whose bytes begin with one complete RLP item
fn only_strictness_can_reject(s: &str) -> bool {
    let body = s.strip_prefix("enr:").unwrap_or(s);
    // lenient decode: drop padding, map the standard alphabet, ignore trailing bits
    let cleaned: String = body
        .chars()
        .filter(|c| !c.is_whitespace() && *c != '=')
        .map(|c| match c {
            '+' => '-',
            '/' => '_',
            o => o,
        })
        .collect();
    let mut t = cleaned.clone().into_bytes();
    if t.len() % 4 == 1 || t.is_empty() || !t.iter().all(|x| ALPHA.contains(x)) {
        return false;
    }
    // clear trailing bits
    let n = t.len();
    let idx = ALPHA.iter().position(|x| *x == t[n - 1]).unwrap();
    let unused = match n % 4 {
        2 => 4,
        3 => 2,
        _ => 0,
    };
    t[n - 1] = ALPHA[idx & !((1usize << unused) - 1)];
    match b64::decode(std::str::from_utf8(&t).unwrap()) {
        Some(bytes) => matches!(rlp::header_at(&bytes), Ok((true, _, _))),
        None => false,
    }
}

impl Property for C12 {
    fn id(&self) -> &'static str {
        "C12"
    }
    fn rule(&self) -> String {
        "cases: the text of an independently signed valid record, and strings derived from it: padding = / ==, appended or inserted characters (alphabet, + / and other foreign characters, whitespace, NUL, non-ASCII), alphabet swap, prefix variants (ENR:, Enr:, enr:enr:, enr, ' enr:', ...), trailing bits set in the last symbol, 1..6 arbitrary bytes or a second record appended before base64-encoding, truncated text, random strings, invalid records as text, double encoding. Oracle: parse (from_str and the JSON deserialiser, all four key types) succeeds iff the reference text parser accepts (literal optional enr: prefix, strict unpadded URL-safe base64, exactly one valid record, nothing after it), with identical fields; for every accepted record to_base64 == Display == JSON string == 'enr:'+reference base64 of its encoding. Additionally, call histories of every key family (custom schemes give records from ~21 to 300 bytes, i.e. with a short list header, a 1-byte and a 2-byte length) are run and the text / Display / JSON forms of every record obtained are checked and parsed back. Non-trivial: a valid text, or a mutated string that leniently decodes to bytes beginning with a complete RLP list (only strictness can reject it). Distinct by hash of the string.".into()
    }
    fn assumptions(&self) -> Vec<String> {
        vec!["reference base64 codec and record decoder are hand-written from RFC 4648 section 5 and the C02 rule list".into()]
    }
    fn entropy_len(&self) -> usize {
        2000
    }
    fn random_cases(&self, quick: bool) -> u64 {
        if quick {
            20_000
        } else {
            400_000
        }
    }
    fn enumerate(&self, quick: bool) -> Box<dyn Iterator<Item = Case> + Send + '_> {
        let per = if quick { 40u64 } else { 500 };
        let texts = TEXT_MUTATIONS.iter().flat_map(move |m| {
            (0..per).map(move |j| {
                let e = det_entropy(&format!("c12/{m}"), j, 2000);
                Case::Text(gen_case(&mut Choices::new(&e), Some(m)))
            })
        });
        // every single-character replacement / insertion by every printable ASCII character outside the
        // URL-safe alphabet (and a few others) at every position of one record's text
        let base_text = {
            let e = det_entropy("c12/base", 1, 2000);
            let t = gen_case(&mut Choices::new(&e), Some("valid"));
            t.s
        };
        let foreign: Vec<char> = (0x20u8..0x7f).map(|b| b as char).filter(|c| !(c.is_ascii_alphanumeric() || *c == '-' || *c == '_')).chain(['\t', '\n', '\r', '\0', 'é', '－']).collect();
        let step = if quick { 3 } else { 1 };
        let bt = base_text.clone();
        let edits = (4..base_text.chars().count()).step_by(step).flat_map(move |pos| {
            let bt = bt.clone();
            foreign.clone().into_iter().flat_map(move |ch| {
                let chars: Vec<char> = bt.chars().collect();
                let mut a = chars.clone();
                a[pos] = ch;
                let mut b = chars;
                b.insert(pos, ch);
                [
                    Case::Text(TextCase { s: a.into_iter().collect(), label: "insert-char".into() }),
                    Case::Text(TextCase { s: b.into_iter().collect(), label: "insert-char".into() }),
                ]
            })
        });
        let texts = texts.chain(edits).chain(head_edits().into_iter().map(Case::Text));
        let fams = crate::keys::ALL_FAMS.to_vec();
        let hists = fams.into_iter().flat_map(|f| crate::gen::history::exhaustive(f, 1)).map(Case::Hist);
        let shapes = crate::sigshapes::corpus().iter().map(|r| {
            Case::Text(TextCase { s: format!("enr:{}", crate::refmodel::b64::encode(&r.bytes)), label: format!("sigshape/{}", r.shape) })
        });
        Box::new(shapes.chain(texts).chain(hists))
    }
    fn fuzz_plans(&self) -> Vec<(&'static str, u64)> {
        vec![("wire_struct", 20000)]
    }
    fn gen(&self, c: &mut Choices) -> Case {
        if c.chance(40) {
            // records of every key family (custom schemes give very short and very long records)
            return Case::Hist(crate::gen::history::gen_history(c, None));
        }
        Case::Text(gen_case(c, None))
    }
    fn check(&self, case: &Case, st: &mut Stats) -> Result<(), String> {
        let t = match case {
            Case::Text(t) => t,
            Case::Hist(h) => {
                let mut v = TextV { st, n: 0, stop: false };
                crate::exec::run_history(h, false, &mut v)?;
                let n = v.n;
                st.label(&format!("hist:{}", h.fam.name()));
                if n > 0 {
                    st.nontrivial(h);
                    st.sample(&format!("hist-{}", h.fam.name()), || json!(case));
                }
                return Ok(());
            }
            _ => return Err("C12: wrong case type".into()),
        };
        let jq = serde_json::to_string(&t.s).unwrap();
        let mut accepted = false;
        for kt in ALL_KEY_TYPES {
            let want = ref_parse_text(&t.s, kt);
            let got = libio::parse_text(kt, &t.s);
            let got_json = libio::parse_json(kt, &jq);
            st.evals(2);
            // every serde entry point must agree with from_str on this string
            let variants = if matches!(want, RefOutcome::Accept(_)) || t.s.len() % 7 == 0 { libio::parse_json_variants(kt, &t.s) } else { vec![] };
            for (name, g) in &variants {
                match (g, &got) {
                    (LibOut::Ok(a, _), LibOut::Ok(b, _)) if a == b => {}
                    (LibOut::Err(_), LibOut::Err(_)) => {}
                    (LibOut::Panic(p), _) => return Err(format!("[{kt:?}] serde_json::{name} panicked: {p}")),
                    (g, _) => {
                        return Err(format!(
                            "[{kt:?}] serde_json::{name} disagrees with from_str on the same string ({}): {} vs {}",
                            t.label,
                            match g { LibOut::Ok(..) => "Ok".to_string(), LibOut::Err(e) => format!("Err({e})"), LibOut::Panic(p) => format!("panic {p}") },
                            if got.is_ok() { "Ok" } else { "Err" }
                        ))
                    }
                }
            }
            match &want {
                RefOutcome::Unspecified(_) => {
                    st.unspecified();
                    continue;
                }
                RefOutcome::Accept(r) => {
                    accepted = true;
                    for (path, g) in [("from_str", &got), ("JSON", &got_json)] {
                        match g {
                            LibOut::Ok(s, _) => libio::same_as_ref(s, r).map_err(|e| format!("[{kt:?}] {path}: {e}"))?,
                            LibOut::Err(e) => return Err(format!("[{kt:?}] {path} rejects a valid text ({}): {e}", t.label)),
                            LibOut::Panic(p) => return Err(format!("[{kt:?}] {path} panicked: {p}")),
                        }
                    }
                    // canonical forms of the accepted record
                    let body = t.s.strip_prefix("enr:").unwrap_or(&t.s);
                    let bytes = b64::decode(body).ok_or("reference accepted undecodable text")?;
                    let canon = format!("enr:{}", b64::encode(&bytes));
                    // the forms of the very object the parser returned (and of its clone, and of the object
                    // serde returns): canonical whatever spelling the record was parsed from
                    match libio::parsed_object_forms(kt, &t.s) {
                        Some(Ok(forms)) => {
                            for (a, b, j) in forms {
                                if a != canon || b != canon || j != serde_json::to_string(&canon).unwrap() {
                                    return Err(format!(
                                        "[{kt:?}] a record parsed from {:?} renders as to_base64 {a:?} / Display {b:?} / JSON {j}, expected the canonical {canon:?}",
                                        if t.s.len() > 60 { format!("{}...", &t.s[..60]) } else { t.s.clone() }
                                    ));
                                }
                            }
                        }
                        Some(Err(p)) => return Err(format!("[{kt:?}] rendering a parsed record panicked: {p}")),
                        None => return Err(format!("[{kt:?}] a text that parsed a moment ago no longer parses")),
                    }
                    match libio::text_forms(kt, &bytes) {
                        Some(Ok((a, b, j))) => {
                            if a != canon {
                                return Err(format!("[{kt:?}] to_base64() = {a:?}, expected {canon:?}"));
                            }
                            if b != canon {
                                return Err(format!("[{kt:?}] Display = {b:?}, expected {canon:?}"));
                            }
                            if j != serde_json::to_string(&canon).unwrap() {
                                return Err(format!("[{kt:?}] JSON = {j}, expected the quoted text form"));
                            }
                            // and both the prefixed and the prefix-less form parse back to an equal record
                            for form in [canon.clone(), canon[4..].to_string()] {
                                match libio::parse_text(kt, &form) {
                                    LibOut::Ok(s2, _) => {
                                        if Some(&s2) != got.snap() {
                                            return Err(format!("[{kt:?}] parsing {form:?} gives a different record"));
                                        }
                                    }
                                    o => return Err(format!("[{kt:?}] canonical text {form:?} does not parse: {o:?}")),
                                }
                            }
                        }
                        Some(Err(p)) => return Err(format!("[{kt:?}] rendering panicked: {p}")),
                        None => return Err(format!("[{kt:?}] decode rejects bytes whose text parses")),
                    }
                }
                RefOutcome::Reject(rej) => {
                    for (path, g) in [("from_str", &got), ("JSON", &got_json)] {
                        match g {
                            LibOut::Err(_) => {}
                            LibOut::Ok(..) => {
                                return Err(format!(
                                    "[{kt:?}] {path} accepts a string the text rules reject ({rej:?}; generated as {}): {:?}",
                                    t.label,
                                    if t.s.len() > 120 { format!("{}...{}", &t.s[..40], &t.s[t.s.len() - 40..]) } else { t.s.clone() }
                                ))
                            }
                            LibOut::Panic(p) => return Err(format!("[{kt:?}] {path} panicked: {p}")),
                        }
                    }
                }
            }
        }
        st.label(&format!("mut:{}", t.label));
        let strict_only = !accepted && only_strictness_can_reject(&t.s);
        if accepted {
            st.label("outcome:accepted");
        }
        if strict_only {
            st.label("outcome:rejected-by-strictness-only");
        }
        if accepted || strict_only {
            st.nontrivial(&t.s);
            st.sample(&format!("{}-{}", t.label, if accepted { "accepted" } else { "strictness" }), || json!(case));
        }
        Ok(())
    }
    fn health(&self, st: &Stats, _q: bool) -> Result<(), String> {
        for m in TEXT_MUTATIONS {
            if st.labels.get(&format!("mut:{m}")).copied().unwrap_or(0) < 20 {
                return Err(format!("mutation {m} under-represented"));
            }
        }
        for l in ["record-size:short-list-header", "record-size:2-byte-length"] {
            if st.labels.get(l).copied().unwrap_or(0) < 20 {
                return Err(format!("{l} under-represented"));
            }
        }
        if st.labels.get("outcome:rejected-by-strictness-only").copied().unwrap_or(0) < 200 {
            return Err("too few strictness-only rejects".into());
        }
        Ok(())
    }
}
