//! C10 — node id is the keccak256 of the record's public key and depends on nothing else.
use crate::case::*;
use crate::cases::Case;
use crate::choices::{det_entropy, Choices};
use crate::engine::{Property, Stats};
use crate::exec::{run_history, StepCx, Visitor};
use crate::gen::{history, wire};
use crate::keys::{pool, Fam, FamId, ALL_FAMS};
use crate::libio::{self, LibOut};
use crate::props::hist::*;
use crate::refmodel::crypto;
use crate::refmodel::keccak::keccak256;
use crate::refmodel::record::{node_id_of, ref_decode_exact, RefOutcome, Scheme, ALL_KEY_TYPES};
use enr::NodeId;
use serde_json::json;
use std::collections::HashMap;

pub struct C10;

struct V<'a> {
    st: &'a mut Stats,
    nontrivial: bool,
    /// public key bytes -> node id seen in this history
    seen: HashMap<Vec<u8>, [u8; 32]>,
    stop: bool,
}

fn edge_key(scheme: Scheme, pk: &[u8]) -> bool {
    match scheme {
        Scheme::Secp => crypto::secp_uncompressed(pk).map(|u| u[0] == 0 || u[32] == 0 || pk[0] == 3).unwrap_or(false),
        Scheme::Ed => pk.first() == Some(&0) || pk.last().map(|b| b & 0x80 != 0).unwrap_or(false),
    }
}

impl<'a> Visitor for V<'a> {
    fn step<K: Fam>(&mut self, cx: &StepCx<K>) -> Result<(), String> {
        if self.stop || matches!(cx.res, crate::exec::CallRes::Panic(_) | crate::exec::CallRes::DecodeErr(_)) {
            return Ok(());
        }
        // (also after a failed call: the record the caller still holds must keep its node id = f(key))
        let (post, enr) = match (cx.post, cx.enr) {
            (Some(p), Some(e)) => (p, e),
            _ => return Ok(()),
        };
        let fam = cx.fam();
        let d = describe_step(cx);
        if known_combined_state(fam, post) && !crate::engine::strict() && crate::engine::is_known(crate::props::c05::KNOWN_COMBINED_ED) {
            // this state is the recorded finding; states reached afterwards are judged again
            self.st.known(crate::props::c05::KNOWN_COMBINED_ED);
            return Ok(());
        }
        self.st.evals(1);
        let (scheme, pk) = record_key(fam, &post.pairs).ok_or_else(|| format!("{d}: no public key entry"))?;
        if pk.len() == 65 {
            return Ok(());
        }
        let want = node_id_for(fam, scheme, &pk).ok_or_else(|| format!("{d}: record carries an invalid public key"))?;
        if post.node_id != want {
            return Err(format!(
                "{d}: node id {} is not keccak256 of the stored public key ({})",
                crate::hexser::hex(&post.node_id),
                crate::hexser::hex(&want)
            ));
        }
        // the id derived from the public-key accessor
        let via = crate::exec::guarded(|| NodeId::from(enr.public_key()).raw()).map_err(|p| format!("{d}: public_key() panicked: {p}"))?;
        if via != want {
            return Err(format!("{d}: NodeId::from(public_key()) differs from keccak256 of the stored key"));
        }
        let via2 = NodeId::from(enr).raw();
        if via2 != post.node_id {
            return Err(format!("{d}: NodeId::from(&enr) differs from node_id()"));
        }
        // uncompressed form agrees with the independent decompression
        if scheme == Scheme::Secp && !fam.is_toy() {
            let u = crypto::secp_uncompressed(&pk).unwrap();
            if post.pk_unc.as_ref().ok().map(|v| v.as_slice()) != Some(&u[..]) {
                return Err(format!("{d}: encode_uncompressed() differs from the independent decompression"));
            }
            if keccak256(&u) != want {
                return Err("internal: keccak mismatch".into());
            }
        }
        // function of the key alone
        if let Some(prev) = self.seen.get(&pk) {
            if *prev != post.node_id {
                return Err(format!("{d}: two records with the same key have different node ids"));
            }
            self.nontrivial = true;
        }
        for (k, v) in &self.seen {
            if *k != pk && *v == post.node_id {
                return Err(format!("{d}: records with different keys share a node id"));
            }
        }
        self.seen.insert(pk.clone(), post.node_id);
        if let (Some(pre), Some(op)) = (cx.pre, cx.op) {
            let same_key = record_key(fam, &pre.pairs).map(|(_, p)| p) == Some(pk.clone());
            // (a pre-state that is itself the recorded finding has a node id that is not its key's)
            let pre_known = known_combined_state(fam, pre) && !crate::engine::strict() && crate::engine::is_known(crate::props::c05::KNOWN_COMBINED_ED);
            if op.is_mutator() && same_key && !pre_known && pre.node_id != post.node_id {
                return Err(format!("{d}: node id changed under an update made with the same key"));
            }
        }
        if (!fam.is_toy() && edge_key(scheme, &pk)) || matches!(cx.h.init, Init::Decoded { .. }) {
            self.nontrivial = true;
        }
        Ok(())
    }
}

impl Property for C10 {
    fn id(&self) -> &'static str {
        "C10"
    }
    fn rule(&self) -> String {
        "cases: (a) call histories as for C05 with keys drawn from a pool containing edge scalars (1, 2, 3, n-1, n-2, (n-1)/2), keys mined for a leading-zero x or y coordinate, odd and even y, and random secrets, for all twelve key families; (b) independently signed wire records decoded under all four key types; (c) every pool key x every family once. Oracle: node_id() == own keccak256 of the independently decompressed 64-byte x||y of the public key stored in the record's pairs (keccak256 of the 32 bytes for ed25519) == NodeId::from(public_key()) == NodeId::from(&record); unchanged by updates made with the same key; equal for records sharing a key, different for different keys. Non-trivial: a record whose key has a leading-zero coordinate or odd y, a decoded (not built) record, or a second record sharing a key. Distinct by hash of the case.".into()
    }
    fn assumptions(&self) -> Vec<String> {
        vec!["decompression by libsecp256k1 cross-checked with k256; keccak hand-written and self-checked".into()]
    }
    fn entropy_len(&self) -> usize {
        1500
    }
    fn random_cases(&self, quick: bool) -> u64 {
        if quick {
            8_000
        } else {
            200_000
        }
    }
    fn exhaustive_part(&self, _q: bool) -> Option<String> {
        Some("every pool key (edge scalars, mined leading-zero coordinates) x every family, built and updated twice".into())
    }
    fn enumerate(&self, quick: bool) -> Box<dyn Iterator<Item = Case> + Send + '_> {
        let mut v: Vec<Case> = Vec::new();
        for fam in ALL_FAMS {
            let p = pool().of(fam.scheme());
            for (i, s) in p.iter().enumerate() {
                let other = p[(i + 1) % p.len()];
                v.push(Case::Hist(History {
                    fam,
                    keys: vec![Secret(*s), Secret(other)],
                    init: Init::Builder { calls: vec![] },
                    ops: vec![
                        Op::SetPort { which: PortKey::Udp, port: 1, k: 0 },
                        Op::Insert { key: b"x".to_vec(), val: TVal::U64(i as u64), k: 0 },
                        Op::Redecode,
                        Op::SetIp { ip: "1.2.3.4".parse().unwrap(), k: 1 },
                        Op::SetSeq { seq: 77, k: 0 },
                    ],
                    fault_at: None,
                    alt_keys: vec![],
                }));
            }
        }
        let nw = if quick { 2000u64 } else { 40_000 };
        let w = (0..nw).map(|j| {
            let e = det_entropy("c10/wire", j, 1400);
            let mut c = Choices::new(&e);
            let d = wire::gen_valid_draft(&mut c);
            Case::Wire(crate::cases::WireCase { bytes: wire::valid_bytes(&d), label: "valid".into(), has_custom: d.has_custom })
        });
        let cross = history::cross_sequences(quick).into_iter().chain(history::depth1_rest(&[])).chain(history::long_repeats(quick)).map(Case::Hist);
        Box::new(v.into_iter().chain(cross).chain(w))
    }
    fn fuzz_plans(&self) -> Vec<(&'static str, u64)> {
        vec![("history", 10000)]
    }
    fn gen(&self, c: &mut Choices) -> Case {
        if c.chance(80) {
            Case::Hist(history::gen_history_cross(c))
        } else {
            Case::Hist(history::gen_history(c, None))
        }
    }
    fn check(&self, case: &Case, st: &mut Stats) -> Result<(), String> {
        match case {
            Case::Hist(h) => {
                let mut v = V { st, nontrivial: false, seen: HashMap::new(), stop: false };
                run_history(h, false, &mut v)?;
                let nt = v.nontrivial;
                label_history(h, st);
                if nt {
                    st.nontrivial(h);
                    st.sample(&format!("hist-{}", h.fam.name()), || json!(case));
                }
                Ok(())
            }
            Case::Wire(w) => {
                for kt in ALL_KEY_TYPES {
                    st.evals(1);
                    if let (LibOut::Ok(s, _), RefOutcome::Accept(r)) = (libio::decode(kt, &w.bytes), ref_decode_exact(&w.bytes, kt)) {
                        if s.node_id != r.node_id {
                            return Err(format!("[{kt:?}] decoded node id differs from keccak256 of the stored public key"));
                        }
                        st.label("wire-accepted");
                        st.nontrivial(&(kt, &w.bytes));
                        st.sample("wire", || json!(case));
                    }
                }
                Ok(())
            }
            _ => Err("C10: wrong case type".into()),
        }
    }
}
