//! C02 — the decoder accepts exactly the well-formed EIP-778 records and nothing else.
use crate::cases::{Case, WireCase};
use crate::choices::{det_entropy, Choices};
use crate::engine::{Property, Stats};
use crate::gen::wire::{self, SignOver, SIGN_VARIANTS, STRUCT_MUTATIONS};
use crate::libio::{self, LibOut};
use crate::refmodel::b64;
use crate::refmodel::record::{ref_decode_exact, RefOutcome, ALL_KEY_TYPES};
use serde_json::json;

pub struct C02;

pub fn gen_struct_case(c: &mut Choices, label: Option<&'static str>) -> WireCase {
    let d = wire::gen_valid_draft(c);
    let which: &'static str = match label {
        Some(l) => l,
        None => {
            if c.chance(77) {
                "valid"
            } else {
                *c.pick(&STRUCT_MUTATIONS[..])
            }
        }
    };
    let has_custom = d.has_custom;
    let mut m = wire::mutate(d, which, c);
    let mut label = which.to_string();
    if which != "valid" && c.chance(25) {
        // stack a second mutation
        let w2: &'static str = *c.pick(&STRUCT_MUTATIONS[..]);
        if m.whole.is_none() {
            let m2 = wire::mutate(m.d.clone(), w2, c);
            let outer = if m2.outer != wire::Outer::Canonical { m2.outer } else { m.outer };
            m = wire::Mutated { d: m2.d, outer, sig_as_list: m.sig_as_list || m2.sig_as_list, whole: m2.whole, label: which };
            label = format!("{which}+{w2}");
        }
    }
    let over = if which == "valid" { SignOver::Literal } else { *c.pick(&SIGN_VARIANTS[..]) };
    let bytes = wire::finish(&m, over);
    WireCase { bytes, label: format!("{label}/{over:?}"), has_custom }
}

pub fn base_label(l: &str) -> &str {
    l.split(['/', '+']).next().unwrap_or(l)
}

impl Property for C02 {
    fn id(&self) -> &'static str {
        "C02"
    }
    fn rule(&self) -> String {
        "cases: a valid record spec (all reserved keys, custom keys incl. order-neighbours of reserved ones, nested-list values, seq and 299..303-byte size boundaries) encoded by the reference encoder and signed by the independent signer (libsecp256k1 or k256 direct, ed25519-dalek direct), then one (sometimes two) of 39 structural mutations, RE-SIGNED over the literal element sequence or over a lenient reconstruction (sorted map last/first duplicate wins, canonicalised integers/strings). Every input is decoded under all four key types via decode and via from_str(base64); oracle = differential against the reference decoder (accept iff accept, identical seq/pairs/signature/public key/node id). Non-trivial: a mutated input that the reference rejects for a structural rule under at least one key type while carrying a signature valid over a reconstruction, or an accepted record with a custom key. Distinct by hash of the input bytes.".into()
    }
    fn assumptions(&self) -> Vec<String> {
        vec![
            "reference decoder written from the statement of C02 (independent RLP, keccak; ECDSA via libsecp256k1 cross-checked with k256; Ed25519 via ed25519-dalek called directly)".into(),
            "regions left open by the statement (malformed inner bytes of list values under unknown keys, 65-byte SEC1 keys, list-typed entry of the other scheme) are excluded and counted".into(),
        ]
    }
    fn entropy_len(&self) -> usize {
        1400
    }
    fn random_cases(&self, quick: bool) -> u64 {
        if quick {
            24_000
        } else {
            600_000
        }
    }
    fn exhaustive_part(&self, _q: bool) -> Option<String> {
        Some("every (mutation label x signing reconstruction) cell is instantiated a fixed number of times".into())
    }
    fn enumerate(&self, quick: bool) -> Box<dyn Iterator<Item = Case> + Send + '_> {
        let per = if quick { 8 } else { 60 };
        let it = STRUCT_MUTATIONS.iter().flat_map(move |l| {
            (0..per * SIGN_VARIANTS.len() as u64).map(move |j| {
                let e = det_entropy(&format!("c02/{l}"), j, 1400);
                let mut c = Choices::new(&e);
                let d = wire::gen_valid_draft(&mut c);
                let has_custom = d.has_custom;
                let m = wire::mutate(d, l, &mut c);
                let over = if *l == "valid" { SignOver::Literal } else { SIGN_VARIANTS[(j as usize) % SIGN_VARIANTS.len()] };
                Case::Wire(WireCase { bytes: wire::finish(&m, over), label: format!("{l}/{over:?}"), has_custom })
            })
        });
        let shapes = crate::sigshapes::corpus().iter().map(|r| Case::Wire(WireCase { bytes: r.bytes.clone(), label: format!("sigshape/{}", r.shape), has_custom: false }));
        let custom = [crate::keys::FamId::Var, crate::keys::FamId::Wide, crate::keys::FamId::Tiny, crate::keys::FamId::Mid, crate::keys::FamId::Nano, crate::keys::FamId::Big, crate::keys::FamId::Null]
            .into_iter()
            .flat_map(|fam| {
                let keys = crate::gen::history::exhaustive_keys(fam);
                [1u64, 127, 65536].into_iter().flat_map(move |seq| {
                    let keys = keys.clone();
                    [vec![], vec![(b"udp".to_vec(), crate::refmodel::rlp::encode_uint(9))], vec![(b"x".to_vec(), crate::refmodel::rlp::encode_str(&[7u8; 60]))]].into_iter().map(move |pairs| {
                        Case::Hist(crate::case::History { fam, keys: keys.clone(), init: crate::case::Init::Decoded { seq, pairs }, ops: vec![], fault_at: None, alt_keys: vec![] })
                    })
                })
            });
        Box::new(shapes.chain(it).chain(custom))
    }
    fn fuzz_plans(&self) -> Vec<(&'static str, u64)> {
        vec![("wire_struct", 20000), ("wire_raw", 30000)]
    }
    fn gen(&self, c: &mut Choices) -> Case {
        Case::Wire(gen_struct_case(c, None))
    }
    fn check(&self, case: &Case, st: &mut Stats) -> Result<(), String> {
        let w = match case {
            Case::Wire(w) => w,
            Case::Hist(h) => {
                // well-formed records of the CUSTOM key types (signed by the harness with the scheme's own
                // signer: signatures of 0, 1, 6, 50..61, 64.. bytes, keys of 1..130 bytes) are accepted too
                struct V0;
                impl crate::exec::Visitor for V0 {
                    fn step<K: crate::keys::Fam>(&mut self, cx: &crate::exec::StepCx<K>) -> Result<(), String> {
                        match (cx.idx, cx.res) {
                            (0, crate::exec::CallRes::DecodeErr(e)) => Err(format!("decode rejects a well-formed record of the custom scheme {}: {e}", cx.h.fam.name())),
                            (0, crate::exec::CallRes::Panic(p)) => Err(format!("decode panicked on a well-formed record of the custom scheme {}: {p}", cx.h.fam.name())),
                            _ => Ok(()),
                        }
                    }
                }
                st.evals(1);
                crate::exec::run_history(h, false, &mut V0)?;
                st.label("custom-scheme-record");
                st.nontrivial(h);
                return Ok(());
            }
            _ => return Err("C02: wrong case type".into()),
        };
        let bl = base_label(&w.label).to_string();
        // C02 quantifies over inputs that consist of exactly one RLP item (or a strict prefix of one);
        // a complete item followed by further bytes is C13's / C12's domain, not judged here
        if let Ok((_, h, p)) = crate::refmodel::rlp::header_at(&w.bytes) {
            if h + p < w.bytes.len() {
                st.unspecified();
                st.label("out-of-domain:item-with-trailing-bytes");
                return Ok(());
            }
        }
        let text = format!("enr:{}", b64::encode(&w.bytes));
        let mut any_struct_reject = false;
        let mut any_accept = false;
        // The verdict is a function of the input alone: the second pass repeats the comparison after the
        // decoder has been fed neighbouring inputs (same record with the key's parity tag flipped, a
        // signature byte flipped, the last byte flipped, one byte cut, the text without prefix / with a
        // stray character) whose outcome is ignored.
        for pass in 0..2 {
        if pass == 1 {
            let mut n: Vec<Vec<u8>> = Vec::new();
            if let Some(i) = w.bytes.windows(11).position(|x| x == b"\x89secp256k1\xa1") {
                if i + 11 < w.bytes.len() {
                    let mut b = w.bytes.clone();
                    b[i + 11] ^= 1;
                    n.push(b);
                }
            }
            for idx in [4usize, w.bytes.len().saturating_sub(1)] {
                if idx < w.bytes.len() {
                    let mut b = w.bytes.clone();
                    b[idx] ^= 0x10;
                    n.push(b);
                }
            }
            if !w.bytes.is_empty() {
                n.push(w.bytes[..w.bytes.len() - 1].to_vec());
            }
            for kt in ALL_KEY_TYPES {
                for b in &n {
                    let _ = libio::decode(kt, b);
                }
                let _ = libio::parse_text(kt, &text[4..]);
                let _ = libio::parse_text(kt, &format!("{text}="));
            }
        }
        // (the second look tries the key types in another order)
        for kt in crate::refmodel::record::key_types_in_order(crate::case::case_hash(&w.bytes).wrapping_add(7 * pass as u64)) {
            let want = ref_decode_exact(&w.bytes, kt);
            st.evals(2);
            let got = libio::decode(kt, &w.bytes);
            let got_txt = libio::parse_text(kt, &text);
            match &want {
                RefOutcome::Unspecified(u) => {
                    if pass == 0 {
                        st.unspecified();
                        st.label(&format!("unspecified:{u:?}"));
                    }
                    continue;
                }
                RefOutcome::Accept(r) => {
                    any_accept = true;
                    for (path, g) in [("decode", &got), ("from_str", &got_txt)] {
                        match g {
                            LibOut::Ok(s, n) => {
                                libio::same_as_ref(s, r).map_err(|e| format!("[{kt:?}] {path}: {e}"))?;
                                if path == "decode" && *n != w.bytes.len() {
                                    return Err(format!("[{kt:?}] decode consumed {n} of {} bytes", w.bytes.len()));
                                }
                            }
                            LibOut::Err(e) => return Err(format!("[{kt:?}] {path} rejects a well-formed record ({}{}): {e}", w.label, if pass == 1 { "; second look, after neighbouring inputs were decoded" } else { "" })),
                            LibOut::Panic(p) => return Err(format!("[{kt:?}] {path} panicked on a well-formed record: {p}")),
                        }
                    }
                }
                RefOutcome::Reject(rej) => {
                    if rej.structural() && pass == 0 {
                        any_struct_reject = true;
                        st.label(&format!("reject:{rej:?}"));
                    }
                    for (path, g) in [("decode", &got), ("from_str", &got_txt)] {
                        match g {
                            LibOut::Err(_) => {}
                            LibOut::Ok(..) => return Err(format!("[{kt:?}] {path} accepts an input the rules reject ({rej:?}; generated as {}{})", w.label, if pass == 1 { "; second look, after neighbouring inputs were decoded" } else { "" })),
                            LibOut::Panic(p) => return Err(format!("[{kt:?}] {path} panicked instead of returning an error ({rej:?}): {p}")),
                        }
                    }
                }
            }
        }
        }
        st.label(&format!("mut:{bl}"));
        if any_accept {
            st.label("outcome:accepted-by-some-type");
        }
        if any_struct_reject && !any_accept {
            st.label("outcome:structural-reject");
        }
        if (bl != "valid" && any_struct_reject) || (any_accept && w.has_custom) {
            st.nontrivial(&w.bytes);
            st.sample(&format!("{}-{}", bl, if any_accept { "accepted" } else { "rejected" }), || json!(case));
        }
        Ok(())
    }
    fn health(&self, st: &Stats, _quick: bool) -> Result<(), String> {
        let total = (st.labels.get("stage:random").copied().unwrap_or(0) + st.labels.get("stage:enumerated").copied().unwrap_or(0)).max(1);
        let acc = st.labels.get("outcome:accepted-by-some-type").copied().unwrap_or(0);
        let rej = st.labels.get("outcome:structural-reject").copied().unwrap_or(0);
        if acc * 5 < total {
            return Err(format!("accepted inputs {acc}/{total} < 20%"));
        }
        if rej * 5 < total {
            return Err(format!("structurally rejected inputs {rej}/{total} < 20%"));
        }
        for l in STRUCT_MUTATIONS {
            if st.labels.get(&format!("mut:{l}")).copied().unwrap_or(0) < 20 {
                return Err(format!("mutation {l} under-represented"));
            }
        }
        Ok(())
    }
}
