//! C07 — sequence-number discipline: +1 per successful update, exact set, no wrap.
use crate::case::*;
use crate::cases::Case;
use crate::choices::{det_entropy, Choices};
use crate::engine::{Property, Stats};
use crate::exec::{run_history, CallRes, StepCx, Visitor, EK};
use crate::gen::{history, wire};
use crate::keys::{Fam, FamId, ALL_FAMS};
use crate::model::Expect;
use crate::props::hist::*;
use crate::refmodel::record::{self, RefOutcome};
use crate::refmodel::rlp;
use serde_json::json;

pub struct C07;

struct V<'a> {
    st: &'a mut Stats,
    nontrivial: bool,
}

fn enc_len(seq: u64) -> usize {
    rlp::encode_uint(seq).len()
}

impl<'a> Visitor for V<'a> {
    fn step<K: Fam>(&mut self, cx: &StepCx<K>) -> Result<(), String> {
        let d = describe_step(cx);
        self.st.evals(1);
        // wire round trip of the number on every record we hold
        if let (Some(post), true) = (cx.post, cx.res.is_ok()) {
            let parsed = rlp::list_elems(&post.enc).and_then(|v| v.get(1).and_then(|(l, _, p)| if *l { None } else { rlp::str_to_u64(p) }));
            if parsed != Some(post.seq) {
                return Err(format!("{d}: the encoding carries sequence number {parsed:?}, the record reports {}", post.seq));
            }
            if let Some(kt) = cx.fam().key_type() {
                if let RefOutcome::Accept(r) = record::ref_decode_exact(&post.enc, kt) {
                    if r.seq != post.seq {
                        return Err(format!("{d}: reference parse has seq {}, record {}", r.seq, post.seq));
                    }
                }
            }
            if post.seq >= u64::MAX - 1 {
                self.nontrivial = true;
            }
            // ... and inside an RLP container (the list header is built from Encodable::length())
            if let Some(enr) = cx.enr {
                let r = crate::exec::guarded(|| -> Result<(), String> {
                    use alloy_rlp::{Decodable, Encodable};
                    if enr.length() != post.enc.len() {
                        return Err(format!("Encodable::length() = {} but the encoding has {} bytes (seq {})", enr.length(), post.enc.len(), post.seq));
                    }
                    // (whether the record decodes at all is C05's matter: only records that decode alone are
                    // expected to decode inside a list)
                    if enr::Enr::<K>::decode(&mut post.enc.as_slice()).is_err() {
                        return Ok(());
                    }
                    let list = alloy_rlp::encode(vec![enr.clone(), enr.clone()]);
                    match Vec::<enr::Enr<K>>::decode(&mut list.as_slice()) {
                        Ok(v) if v.len() == 2 && v.iter().all(|x| x.seq() == post.seq) => Ok(()),
                        Ok(v) => Err(format!("a list of two copies decodes to {} records with sequence numbers {:?} (record: {})", v.len(), v.iter().map(|x| x.seq()).collect::<Vec<_>>(), post.seq)),
                        Err(e) => Err(format!("a list of two copies of the record (seq {}) does not decode: {e:?}", post.seq)),
                    }
                })
                .map_err(|p| format!("{d}: list round trip panicked: {p}"))?;
                r.map_err(|m| format!("{d}: {m}"))?;
            }
        }
        let (op, pre, post) = match (cx.op, cx.pre, cx.post) {
            (Some(o), Some(a), Some(b)) => (o, a, b),
            _ => {
                // initial record: builder seq / decoded seq
                if let (Some(post), true) = (cx.post, cx.res.is_ok()) {
                    let want = match &cx.h.init {
                        Init::Builder { calls } | Init::BuilderReuse { calls, .. } => calls.iter().rev().find_map(|c| if let BCall::Seq(s) = c { Some(*s) } else { None }).unwrap_or(1),
                        Init::Decoded { seq, .. } => *seq,
                    };
                    if post.seq != want {
                        return Err(format!("{d}: initial record has seq {}, requested {want}", post.seq));
                    }
                }
                return Ok(());
            }
        };
        let compound = matches!(op, Op::SetSocket { .. } | Op::RemoveSocket { .. } | Op::RemoveInsert { .. } | Op::SetClientInfo { .. });
        match (op, cx.res) {
            (Op::SetSeq { seq, .. }, CallRes::Ok(_)) => {
                if post.seq != *seq {
                    return Err(format!("{d}: set_seq({seq}) left the sequence number at {}", post.seq));
                }
                self.st.label("seq:set");
            }
            (Op::Redecode, CallRes::Ok(_)) | (Op::CloneSwap, CallRes::Ok(_)) | (Op::Reparse { .. }, CallRes::Ok(_)) | (Op::Reserde, CallRes::Ok(_)) | (Op::CloneFrom, CallRes::Ok(_)) => {
                if post.seq != pre.seq {
                    return Err(format!("{d}: sequence number changed from {} to {}", pre.seq, post.seq));
                }
            }
            (_, CallRes::Ok(_)) => {
                if pre.seq == u64::MAX {
                    return Err(format!("{d}: an update at 2^64-1 succeeded (seq now {})", post.seq));
                }
                if post.seq != pre.seq + 1 {
                    return Err(format!("{d}: successful update moved the sequence number from {} to {} (expected +1)", pre.seq, post.seq));
                }
                if compound || enc_len(post.seq) != enc_len(pre.seq) {
                    self.nontrivial = true;
                }
                self.st.label(if enc_len(post.seq) != enc_len(pre.seq) { "seq:+1-encoding-grows" } else { "seq:+1" });
            }
            (_, CallRes::Err(k, m)) => {
                if post.seq != pre.seq {
                    return Err(format!("{d}: a failed call moved the sequence number from {} to {} (the number counts successful updates)", pre.seq, post.seq));
                }
                if let Op::SetSeq { seq, .. } = op {
                    // "setting the sequence number sets exactly the requested value": it may only fail
                    // for a cause the model knows (size)
                    if let Some(Expect::MustOk(_)) = crate::props::c08::expectation(cx, false) {
                        return Err(format!("{d}: set_seq({seq}) failed with {k:?} ({m}) although nothing prevents setting that value"));
                    }
                }
                if pre.seq == u64::MAX && !matches!(op, Op::SetSeq { .. }) {
                    self.nontrivial = true;
                    self.st.label("seq:update-at-max");
                    // the sequence-number error whenever no other failure cause applies
                    if let Some(Expect::MustErr(kinds)) = crate::props::c08::expectation(cx, false) {
                        if kinds.len() == 1 && kinds.contains(&EK::SeqHigh) && *k != EK::SeqHigh {
                            return Err(format!("{d}: update at 2^64-1 failed with {k:?} ({m}) instead of the sequence-number error"));
                        }
                    }
                }
            }
            _ => {}
        }
        Ok(())
    }
}

impl Property for C07 {
    fn id(&self) -> &'static str {
        "C07"
    }
    fn rule(&self) -> String {
        "cases: call histories as for C05 from every boundary starting sequence number (0, 1, 127/128, 255/256, 2^16-1/2^16, 2^24-1, 2^32-1/2^32, 2^40-1, 2^56-1/2^56, 2^63, 2^64-2, 2^64-1) and random 64-bit values of every byte length, set_seq with boundary and random targets; enumerated part: every boundary value x every mutator once, and a wire round trip of every boundary value and 2000 further values. Oracle: a successful content update (compound ones included) moves the number by exactly +1; set_seq(n) sets n; an update at 2^64-1 fails, with the sequence-number error whenever the map model finds no other cause; decode(encode(e)) and an independent parse of the encoding carry the same number. Non-trivial: a step at which the encoding of the number changes length, a number >= 2^64-2, or a compound update. Distinct by hash of the history.".into()
    }
    fn assumptions(&self) -> Vec<String> {
        vec!["'no other failure cause' is judged by the map model of C08".into()]
    }
    fn entropy_len(&self) -> usize {
        1500
    }
    fn random_cases(&self, quick: bool) -> u64 {
        if quick {
            10_000
        } else {
            250_000
        }
    }
    fn exhaustive_part(&self, _q: bool) -> Option<String> {
        Some("every boundary sequence number x every operation of the alphabet (single step); all ordered pairs of alphabet operations (the same call twice included) from seq 7 and 255".into())
    }
    fn enumerate(&self, quick: bool) -> Box<dyn Iterator<Item = Case> + Send + '_> {
        let fams: Vec<FamId> = if quick { vec![FamId::K256, FamId::Ed] } else { ALL_FAMS.to_vec() };
        let single = fams.clone().into_iter().flat_map(|fam| {
            let keys = history::exhaustive_keys(fam);
            let alpha = history::alphabet(fam);
            wire::SEQ_BOUNDARY.into_iter().flat_map(move |s| {
                let keys = keys.clone();
                alpha.clone().into_iter().map(move |op| {
                    Case::Hist(History {
                        fam,
                        keys: keys.clone(),
                        init: Init::Decoded { seq: s, pairs: vec![(b"ip".to_vec(), rlp::encode_str(&[1, 2, 3, 4])), (b"udp".to_vec(), rlp::encode_uint(9))] },
                        ops: vec![op, Op::Redecode],
                        fault_at: None,
                    alt_keys: vec![],
                    })
                })
            })
        });
        // every sequence number 0..=300 and two on either side of every power of two, through decode / encode
        let small = (0..=300u64)
            .chain((3..64u32).flat_map(|p| {
                let b = 1u64 << p;
                [b - 2, b - 1, b, b + 1]
            }))
            .chain([u64::MAX - 1, u64::MAX])
            .map(|seq| {
                let fam = if seq % 3 == 0 { FamId::Ed } else { FamId::K256 };
                Case::Hist(History { fam, keys: history::exhaustive_keys(fam), init: Init::Decoded { seq, pairs: vec![] }, ops: vec![Op::Redecode, Op::SetPort { which: PortKey::Udp, port: 1, k: 0 }], fault_at: None, alt_keys: vec![] })
            });
        let nrt = if quick { 500u64 } else { 4000 };
        let rt = (0..nrt).map(|j| {
            let e = det_entropy("c07/rt", j, 64);
            let mut c = Choices::new(&e);
            let fam = history::gen_fam(&mut c);
            let seq = wire::gen_seq(&mut c);
            Case::Hist(History { fam, keys: history::exhaustive_keys(fam), init: Init::Decoded { seq, pairs: vec![] }, ops: vec![Op::Redecode, Op::SetSeq { seq: wire::gen_seq(&mut c), k: 0 }, Op::Redecode], fault_at: None, alt_keys: vec![] })
        });
        // all pairs of alphabet operations (the same call twice included) from two starting numbers
        let pairs = (if quick { vec![FamId::K256] } else { ALL_FAMS.to_vec() }).into_iter().flat_map(|fam| {
            let keys = history::exhaustive_keys(fam);
            let alpha = history::alphabet(fam);
            let n = alpha.len();
            [7u64, 255].into_iter().flat_map(move |s| {
                let keys = keys.clone();
                let alpha = alpha.clone();
                (0..n * n).map(move |ij| {
                    Case::Hist(History {
                        fam,
                        keys: keys.clone(),
                        init: Init::Decoded { seq: s, pairs: vec![(b"ip".to_vec(), rlp::encode_str(&[1, 2, 3, 4])), (b"udp".to_vec(), rlp::encode_uint(9))] },
                        ops: vec![alpha[ij / n].clone(), alpha[ij % n].clone()],
                        fault_at: None,
                    alt_keys: vec![],
                    })
                })
            })
        });
        let cross = history::cross_sequences(quick).into_iter().map(Case::Hist);
        Box::new(single.chain(small).chain(rt).chain(pairs).chain(cross).chain(history::long_repeats(quick).into_iter().map(Case::Hist)))
    }
    fn fuzz_plans(&self) -> Vec<(&'static str, u64)> {
        vec![("history", 10000)]
    }
    fn gen(&self, c: &mut Choices) -> Case {
        // "+1 per successful update" holds for every update call, whoever signs: a third of the histories may
        // sign with a CombinedKey of the other variant
        if c.chance(85) {
            Case::Hist(history::gen_history_cross(c))
        } else {
            Case::Hist(history::gen_history(c, None))
        }
    }
    fn check(&self, case: &Case, st: &mut Stats) -> Result<(), String> {
        let h = match case {
            Case::Hist(h) => h,
            _ => return Err("C07: wrong case type".into()),
        };
        let mut v = V { st, nontrivial: false };
        run_history(h, false, &mut v)?;
        let nt = v.nontrivial;
        label_history(h, st);
        if nt {
            st.nontrivial(h);
            st.sample(&format!("{}-{}", h.fam.name(), h.ops.first().map(|o| o.name()).unwrap_or("none")), || json!(case));
        }
        Ok(())
    }
    fn health(&self, st: &Stats, _q: bool) -> Result<(), String> {
        for l in ["seq:set", "seq:+1", "seq:+1-encoding-grows", "seq:update-at-max"] {
            if st.labels.get(l).copied().unwrap_or(0) < 100 {
                return Err(format!("{l} under-represented"));
            }
        }
        Ok(())
    }
}
