//! Shared pieces of the history-based properties (C03-C10, C15).
use crate::case::*;
use crate::engine::Stats;
use crate::exec::{CallRes, Snap, StepCx};
use crate::keys::{self, Fam, FamId};
use crate::refmodel::crypto::{self, Verdict};
use crate::refmodel::record::{self, node_id_of, KeyType, RefOutcome, Scheme};
use crate::refmodel::rlp;

/// The public key (scheme, bytes) a record of family `fam` with these pairs is verified against.
pub fn record_key(fam: FamId, pairs: &[(Vec<u8>, Vec<u8>)]) -> Option<(Scheme, Vec<u8>)> {
    if fam.is_toy() {
        // (the Scheme tag is meaningless for the toy scheme; callers use `node_id_for` / `independent_verify`)
        let raw = &pairs.iter().find(|(k, _)| k.as_slice() == fam.key_name())?.1;
        return match rlp::decode_exact(raw) {
            Ok(rlp::Item::Str(s)) => Some((Scheme::Ed, s)),
            _ => None,
        };
    }
    let kt = fam.key_type().unwrap_or(KeyType::Libsecp);
    crate::props::c01::key_for(kt, pairs)
}

/// keccak256 of the uncompressed form of the key, per family
pub fn node_id_for(fam: FamId, scheme: Scheme, pk: &[u8]) -> Option<[u8; 32]> {
    if fam.is_toy() {
        return if pk.len() == 4 || pk.len() == 5 || (64..=130).contains(&pk.len()) || (pk.len() == 1 && pk[0] < 0x80) { Some(crate::refmodel::keccak::keccak256(pk)) } else { None };
    }
    node_id_of(scheme, pk)
}

/// Independent verification of a record's signature over exactly the fields it reports.
pub fn independent_verify(fam: FamId, s: &Snap) -> Verdict {
    let (scheme, pk) = match record_key(fam, &s.pairs) {
        Some(x) => x,
        None => return Verdict::Invalid,
    };
    if fam.is_toy() {
        let c = record::content_from_fields(s.seq, &s.pairs);
        return keys::tiny_verify(&pk, &c, &s.sig);
    }
    if matches!(fam, FamId::Var | FamId::Wide) {
        let c = record::content_from_fields(s.seq, &s.pairs);
        return keys::var_verify(&pk, &c, &s.sig);
    }
    record::verify_fields(scheme, &pk, s.seq, &s.pairs, &s.sig)
}

/// C05's invariant on one record (given its snapshot and the record itself for re-decoding).
pub fn valid_record<K: Fam>(fam: FamId, s: &Snap, enr: &enr::Enr<K>) -> Result<(), String> {
    use alloy_rlp::Decodable;
    if let Err(p) = &s.pk {
        return Err(format!("public_key() panics on a record the library handed out: {p}"));
    }
    match &s.verify {
        Ok(true) => {}
        Ok(false) => return Err("verify() is false on a record the library handed out".into()),
        Err(p) => return Err(format!("verify() panics on a record the library handed out: {p}")),
    }
    if s.get(b"id").map(|v| v.as_slice()) != Some(&rlp::encode_str(b"v4")[..]) {
        return Err("record without id = v4".into());
    }
    let (scheme, pk) = record_key(fam, &s.pairs).ok_or("record carries no usable public key entry")?;
    if pk.len() == 65 {
        return Ok(()); // open region
    }
    match independent_verify(fam, s) {
        Verdict::Valid => {}
        Verdict::Disagree => return Ok(()),
        Verdict::Invalid => return Err("record does not verify under the public key it carries (independent verifier)".into()),
    }
    if s.pk.as_ref().ok() != Some(&pk) {
        return Err("public_key() differs from the public key entry of the record".into());
    }
    match node_id_for(fam, scheme, &pk) {
        Some(id) if id == s.node_id => {}
        Some(_) => return Err("node id is not the hash of the record's public key".into()),
        None => return Err("record carries an invalid public key".into()),
    }
    if s.enc.len() > 300 {
        return Err(format!("record encodes to {} bytes (> 300)", s.enc.len()));
    }
    match crate::exec::guarded(|| enr::Enr::<K>::decode(&mut s.enc.as_slice()).map(|e| crate::exec::snap(&e))) {
        Ok(Ok(s2)) => {
            if s2 != *s {
                return Err("decode(encode(record)) differs from the record".into());
            }
        }
        Ok(Err(e)) => return Err(format!("the decoder rejects a record the library handed out: {e:?}")),
        Err(p) => return Err(format!("the decoder panics on a record the library handed out: {p}")),
    }
    if let Some(kt) = fam.key_type() {
        match record::ref_decode_exact(&s.enc, kt) {
            RefOutcome::Accept(r) => crate::libio::same_as_ref(s, &r).map_err(|e| format!("reference parse of the encoding: {e}"))?,
            RefOutcome::Unspecified(_) => {}
            RefOutcome::Reject(rej) => return Err(format!("the reference decoder rejects the record's encoding ({rej:?})")),
        }
    }
    Ok(())
}

pub fn describe_step<K: Fam>(cx: &StepCx<K>) -> String {
    match cx.op {
        None => format!("step 0 (initial record via {}, family {})", match cx.h.init { Init::Builder { .. } => "builder", Init::BuilderReuse { .. } => "re-used builder", Init::Decoded { .. } => "decode" }, cx.h.fam.name()),
        Some(op) => format!("step {} ({}, family {}, signer key {:?}) -> {}", cx.idx, op.name(), cx.h.fam.name(), op.signer(), short_res(cx.res)),
    }
}

pub fn short_res(r: &CallRes) -> String {
    match r {
        CallRes::Ok(_) => "Ok".into(),
        CallRes::Err(k, m) => format!("Err({k:?}: {m})"),
        CallRes::DecodeErr(m) => format!("DecodeErr({m})"),
        CallRes::Panic(p) => format!("PANIC({p})"),
    }
}

/// labels describing a history (for the evidence histogram)
pub fn label_history(h: &History, st: &mut Stats) {
    st.label(&format!("fam:{}", h.fam.name()));
    st.label(match h.init {
        Init::Builder { .. } => "init:builder",
        Init::BuilderReuse { .. } => "init:builder-reuse",
        Init::Decoded { .. } => "init:decoded",
    });
    st.label(&format!("ops:{}", match h.ops.len() {
        0 => "0",
        1..=3 => "1-3",
        4..=8 => "4-8",
        _ => "9+",
    }));
    if h.ops.iter().any(|o| o.signer().map(|k| k != 0).unwrap_or(false)) {
        st.label("has:other-key-signer");
    }
}

pub fn is_reserved(key: &[u8]) -> bool {
    crate::gen::wire::RESERVED.iter().any(|r| *r == key)
}

/// does the op pass a reserved key through a generic entry point
pub fn reserved_via_generic(op: &Op) -> bool {
    match op {
        Op::Insert { key, .. } | Op::InsertRaw { key, .. } | Op::RemoveKey { key, .. } => is_reserved(key),
        Op::RemoveInsert { remove, insert, .. } => remove.iter().any(|k| is_reserved(k)) || insert.iter().any(|(k, _)| is_reserved(k)),
        _ => false,
    }
}

/// the record carries a `secp256k1` entry that CombinedKey uses as the record's key: a valid
/// compressed key, or a valid point in the 65-byte uncompressed form (tag 04)
pub fn secp_valid_entry(pairs: &[(Vec<u8>, Vec<u8>)]) -> bool {
    pairs
        .iter()
        .find(|(k, _)| k == b"secp256k1")
        .and_then(|(_, v)| rlp::decode_exact(v).ok())
        .and_then(|i| i.as_str().map(|s| crypto::secp_pk_valid(s) || (s.len() == 65 && s[0] == 4 && secp256k1::PublicKey::from_slice(s).is_ok())))
        .unwrap_or(false)
}

/// The state of the recorded known finding, independent of which call produced it: a CombinedKey
/// record that carries a `secp256k1` entry CombinedKey resolves as its key, while its signature is
/// an Ed25519 signature under its `ed25519` entry (i.e. the last signer was the ed25519 variant).
pub fn known_combined_state(fam: FamId, s: &Snap) -> bool {
    if !matches!(fam, FamId::CombinedSecp | FamId::CombinedEd) || !secp_valid_entry(&s.pairs) {
        return false;
    }
    let ed = s
        .pairs
        .iter()
        .find(|(k, _)| k == b"ed25519")
        .and_then(|(_, v)| rlp::decode_exact(v).ok())
        .and_then(|i| i.as_str().map(|b| b.to_vec()));
    match ed {
        Some(pk) if crypto::ed_pk_valid(&pk) => record::verify_fields(Scheme::Ed, &pk, s.seq, &s.pairs, &s.sig) == Verdict::Valid,
        _ => false,
    }
}

/// What a cold observation (after a blind run) must satisfy, and how it must relate to the state the
/// fully observed run of the same history had at that step.
pub fn cold_consistent(cold: &crate::exec::Cold, observed: Option<&Snap>) -> Result<(), String> {
    let s = &cold.snap;
    let want = record::record_from_fields(&s.sig, s.seq, &s.pairs);
    if cold.enc != want {
        return Err(format!(
            "without intermediate observation, encode() is not the encoding of the fields the record reports ({} vs {} bytes; seq {}, {} pairs)",
            cold.enc.len(),
            want.len(),
            s.seq,
            s.pairs.len()
        ));
    }
    if cold.size != cold.enc.len() {
        return Err(format!("without intermediate observation, size() = {} but the encoding has {} bytes", cold.size, cold.enc.len()));
    }
    if cold.text != format!("enr:{}", crate::refmodel::b64::encode(&cold.enc)) {
        return Err("without intermediate observation, to_base64() is not the text of the record's encoding".into());
    }
    if s.enc != cold.enc {
        return Err("the encoding changed between two consecutive observations".into());
    }
    if let Some(o) = observed {
        if o.seq != s.seq || o.pairs != s.pairs || o.node_id != s.node_id || o.pk != s.pk {
            return Err("the record differs from the one the fully observed run of the same history holds at this step".into());
        }
        if o.enc.len() != cold.enc.len() && o.sig.len() == s.sig.len() {
            return Err("the encoding length differs from the fully observed run although the fields agree".into());
        }
    }
    Ok(())
}
