//! C17 in the minimal configuration: `CombinedKey` does not exist in a build of enr without k256 / ed25519;
//! the property has nothing to quantify over there and every case is counted as out of domain.
use crate::cases::{Case, KeyImportCase};
use crate::choices::Choices;
use crate::engine::{Property, Stats};

pub struct C17;

impl Property for C17 {
    fn id(&self) -> &'static str {
        "C17"
    }
    fn rule(&self) -> String {
        "not applicable in this build configuration (no CombinedKey)".into()
    }
    fn assumptions(&self) -> Vec<String> {
        vec![]
    }
    fn random_cases(&self, _quick: bool) -> u64 {
        10
    }
    fn gen(&self, c: &mut Choices) -> Case {
        Case::KeyImport(KeyImportCase { ed: c.bool(), bytes: c.bytes(32), ports: vec![] })
    }
    fn check(&self, _case: &Case, st: &mut Stats) -> Result<(), String> {
        st.unspecified();
        Ok(())
    }
}
