//! C01 — accepted records are authentic: the signature binds seq and every key/value.
use crate::cases::{Case, WireCase};
use crate::choices::{det_entropy, Choices};
use crate::engine::{Property, Stats};
use crate::gen::wire::{self, BYTE_TAMPERS, FIELD_TAMPERS};
use crate::libio::{self, LibOut};
use crate::refmodel::b64;
use crate::refmodel::crypto::Verdict;
use crate::refmodel::record::{self, ref_decode_exact, KeyType, RefOutcome, Rej, Scheme, ALL_KEY_TYPES};
use crate::refmodel::rlp;
use serde_json::json;

pub struct C01;

/// The public key the key type `kt` must verify a record with these pairs against.
pub fn key_for(kt: KeyType, pairs: &[(Vec<u8>, Vec<u8>)]) -> Option<(Scheme, Vec<u8>)> {
    let entry = |name: &[u8]| -> Option<Vec<u8>> {
        let raw = &pairs.iter().find(|(k, _)| k == name)?.1;
        match rlp::decode_exact(raw) {
            Ok(rlp::Item::Str(s)) => Some(s),
            _ => None,
        }
    };
    let secp = entry(b"secp256k1");
    let ed = entry(b"ed25519");
    match kt {
        KeyType::K256 | KeyType::Libsecp => secp.map(|p| (Scheme::Secp, p)),
        KeyType::Ed => ed.map(|p| (Scheme::Ed, p)),
        KeyType::Combined => match secp {
            Some(p) if crate::refmodel::crypto::secp_pk_valid(&p) || p.len() == 65 => Some((Scheme::Secp, p)),
            _ => ed.map(|p| (Scheme::Ed, p)),
        },
    }
}

/// The authenticity oracle on one accepted record (`s`) decoded from `input`.
pub fn authentic(kt: KeyType, input: &[u8], s: &crate::exec::Snap, st: &mut Stats) -> Result<(), String> {
    // (i) signature bytes = the first element of the input list
    let sig_in = (|| {
        let (l, hl, pl) = rlp::header_at(input).ok()?;
        if !l {
            return None;
        }
        let p = &input[hl..hl + pl];
        let (l2, h2, p2) = rlp::header_at(p).ok()?;
        if l2 {
            return None;
        }
        Some(p[h2..h2 + p2].to_vec())
    })();
    if sig_in.as_deref() != Some(&s.sig[..]) {
        return Err(format!("[{kt:?}] signature() differs from the signature field of the input"));
    }
    // (i') every accepted byte is covered: the record re-encodes to exactly the item it was read from
    // (an accepted input that is normalised on the way in carries bytes the signature does not bind)
    if let Ok((_, hl, pl)) = rlp::header_at(input) {
        if s.enc[..] != input[..(hl + pl).min(input.len())] {
            return Err(format!("[{kt:?}] an accepted input is not the record the signature covers: the decoded record re-encodes to different bytes (altered record accepted)"));
        }
    }
    // (ii) valid v4 signature under the key in the record's own pairs, over exactly what it reports
    let (scheme, pk) = key_for(kt, &s.pairs).ok_or_else(|| format!("[{kt:?}] accepted record carries no public key entry of its type"))?;
    if pk.len() == 65 {
        st.unspecified();
        return Ok(());
    }
    if s.get(b"id").map(|v| v.as_slice()) != Some(&rlp::encode_str(b"v4")[..]) {
        return Err(format!("[{kt:?}] accepted record without id=v4"));
    }
    match record::verify_fields(scheme, &pk, s.seq, &s.pairs, &s.sig) {
        Verdict::Valid => {}
        Verdict::Disagree => {
            st.unspecified();
            return Ok(());
        }
        Verdict::Invalid => {
            return Err(format!(
                "[{kt:?}] accepted record does not carry a valid v4 signature by its own public key over the seq/pairs it reports (independent verifier)"
            ))
        }
    }
    // (iii) reports itself as verifying
    match &s.verify {
        Ok(true) => Ok(()),
        Ok(false) => Err(format!("[{kt:?}] decoded record reports verify() == false")),
        Err(p) => Err(format!("[{kt:?}] verify() panicked on a decoded record: {p}")),
    }
}

fn gen_case(c: &mut Choices, forced: Option<&str>) -> WireCase {
    let d = wire::gen_valid_draft(c);
    let has_custom = d.has_custom;
    let kind = match forced {
        Some(f) => f.to_string(),
        None => match c.below(10) {
            0 => "valid".to_string(),
            1 | 2 => c.pick(&BYTE_TAMPERS[..]).to_string(),
            3 => "arbitrary".to_string(),
            4 => "struct".to_string(),
            _ => c.pick(&FIELD_TAMPERS[..]).to_string(),
        },
    };
    let bytes = if kind == "valid" {
        wire::valid_bytes(&d)
    } else if kind == "arbitrary" {
        let n = c.below(320);
        let mut b = c.bytes(n);
        if c.bool() && !b.is_empty() {
            // splice into a valid record
            let v = wire::valid_bytes(&d);
            let at = c.below(v.len());
            let mut o = v[..at].to_vec();
            o.append(&mut b);
            o.extend_from_slice(&v[at..]);
            o.truncate(400);
            b = o;
        }
        b
    } else if kind == "struct" {
        return {
            let mut w = crate::props::c02::gen_struct_case(c, None);
            w.label = format!("struct:{}", w.label);
            w
        };
    } else if BYTE_TAMPERS.contains(&kind.as_str()) {
        wire::byte_tamper(&wire::valid_bytes(&d), &kind, c)
    } else {
        wire::field_tamper(&d, &kind, c)
    };
    WireCase { bytes, label: kind, has_custom }
}

impl Property for C01 {
    fn id(&self) -> &'static str {
        "C01"
    }
    fn rule(&self) -> String {
        "cases: records signed by the independent signer and their tampers: 16 field-level tampers that keep the record a well-formed RLP record (re-signed with another key, signature over seq+-1 / a changed value / an added or removed pair / another record, high-S twin, r or s = 0 or >= n, wrong-length signature, public key swapped, signature bit flip, key renamed), byte-level tampers (every single-bit flip and every truncation of selected records exhaustively; random flips / replacements / insertions / deletions), re-signed structural mutations and arbitrary bytes. Every input is decoded under all four key types through decode and from_str. Oracle: whenever the library returns a record, its signature() equals the signature field of the input, an independent verifier (libsecp256k1 + k256 direct with own low-S / range checks; ed25519-dalek direct) accepts it under the public key stored in the record's own pairs over the reference encoding of exactly [seq, pairs] it reports, and verify() is true; and acceptance agrees with the reference decoder (tampers are rejected). Non-trivial: an input the reference rejects *only* for its signature (well-formed record of the right shape), or an accepted record. Distinct by hash of the input bytes.".into()
    }
    fn assumptions(&self) -> Vec<String> {
        vec![
            "ECDSA/Ed25519 unforgeability: the search shows the verification step is wired to the right key, bytes and fields, not that no forgery exists".into(),
            "Ed25519 arithmetic has a single available implementation (ed25519-dalek), called directly on reference-computed content".into(),
        ]
    }
    fn entropy_len(&self) -> usize {
        1400
    }
    fn random_cases(&self, quick: bool) -> u64 {
        if quick {
            24_000
        } else {
            500_000
        }
    }
    fn exhaustive_part(&self, quick: bool) -> Option<String> {
        Some(format!(
            "all single-bit flips and all truncations of {} base records; every field tamper x {} base records",
            if quick { 12 } else { 300 },
            if quick { 25 } else { 400 }
        ))
    }
    fn enumerate(&self, quick: bool) -> Box<dyn Iterator<Item = Case> + Send + '_> {
        let nflip = if quick { 12u64 } else { 300 };
        let nfield = if quick { 25u64 } else { 400 };
        let flips = (0..nflip).flat_map(|j| {
            let e = det_entropy("c01/flip", j, 1400);
            let mut c = Choices::new(&e);
            let d = wire::gen_valid_draft(&mut c);
            let has_custom = d.has_custom;
            let v = wire::valid_bytes(&d);
            let n = v.len();
            let v2 = v.clone();
            let a = (0..n * 8).map(move |bit| {
                let mut b = v.clone();
                b[bit / 8] ^= 1 << (bit % 8);
                Case::Wire(WireCase { bytes: b, label: "bitflip".into(), has_custom })
            });
            let t = (0..n).map(move |len| Case::Wire(WireCase { bytes: v2[..len].to_vec(), label: "truncate".into(), has_custom }));
            a.chain(t)
        });
        let fields = FIELD_TAMPERS.iter().flat_map(move |f| {
            (0..nfield).map(move |j| {
                let e = det_entropy(&format!("c01/{f}"), j, 1400);
                Case::Wire(gen_case(&mut Choices::new(&e), Some(f)))
            })
        });
        // valid records whose signature bytes have a rare shape (ground once, committed)
        let shapes = crate::sigshapes::corpus().iter().map(|r| Case::Wire(WireCase { bytes: r.bytes.clone(), label: format!("sigshape/{}", r.shape), has_custom: false }));
        Box::new(shapes.chain(flips).chain(fields))
    }
    fn fuzz_plans(&self) -> Vec<(&'static str, u64)> {
        vec![("wire_raw", 30000), ("wire_struct", 15000)]
    }
    fn gen(&self, c: &mut Choices) -> Case {
        Case::Wire(gen_case(c, None))
    }
    fn check(&self, case: &Case, st: &mut Stats) -> Result<(), String> {
        let w = match case {
            Case::Wire(w) => w,
            _ => return Err("C01: wrong case type".into()),
        };
        let text = format!("enr:{}", b64::encode(&w.bytes));
        let mut sig_only_reject = false;
        let mut accepted = false;
        for kt in crate::refmodel::record::key_types_in_order(crate::case::case_hash(&w.bytes)) {
            let want = ref_decode_exact(&w.bytes, kt);
            let got = libio::decode(kt, &w.bytes);
            let got_txt = libio::parse_text(kt, &text);
            st.evals(2);
            for (path, g) in [("decode", &got), ("from_str", &got_txt)] {
                if let LibOut::Ok(s, _) = g {
                    accepted = true;
                    authentic(kt, &w.bytes, s, st).map_err(|e| format!("{path}: {e} (generated as {})", w.label))?;
                }
            }
            match &want {
                RefOutcome::Reject(r) => {
                    if *r == Rej::BadSignature {
                        sig_only_reject = true;
                    }
                    // exact acceptance is C02's; here only: an input whose signature the reference
                    // finds invalid must not be accepted
                    if *r == Rej::BadSignature {
                        for (path, g) in [("decode", &got), ("from_str", &got_txt)] {
                            if g.is_ok() {
                                return Err(format!("[{kt:?}] {path} accepts a record whose signature is invalid (generated as {})", w.label));
                            }
                        }
                    }
                }
                RefOutcome::Unspecified(_) => st.unspecified(),
                RefOutcome::Accept(_) => {}
            }
        }
        let bl = crate::props::c02::base_label(&w.label).to_string();
        st.label(&format!("kind:{bl}"));
        if accepted {
            st.label("outcome:accepted");
        }
        if sig_only_reject {
            st.label("outcome:rejected-for-signature-only");
        }
        if sig_only_reject || accepted {
            st.nontrivial(&w.bytes);
            st.sample(&format!("{}-{}", bl, if accepted { "accepted" } else { "sig-rejected" }), || json!(case));
        }
        Ok(())
    }
    fn health(&self, st: &Stats, _quick: bool) -> Result<(), String> {
        let total = (st.labels.get("stage:random").copied().unwrap_or(0) + st.labels.get("stage:enumerated").copied().unwrap_or(0)).max(1);
        let so = st.labels.get("outcome:rejected-for-signature-only").copied().unwrap_or(0);
        if so * 10 < total {
            return Err(format!("signature-only rejects {so}/{total} < 10%"));
        }
        for l in FIELD_TAMPERS {
            if st.labels.get(&format!("kind:{l}")).copied().unwrap_or(0) < 20 {
                return Err(format!("tamper {l} under-represented"));
            }
        }
        Ok(())
    }
}
