//! C17 — CombinedKey secret import/export is exact, validating and wipes the input.
use crate::cases::{Case, KeyImportCase};
use crate::choices::Choices;
use crate::engine::{Property, Stats};
use crate::exec::guarded;
use crate::refmodel::crypto::{self, Verdict};
use crate::refmodel::record::{self, KeyType, RefOutcome, Scheme};
use enr::{CombinedKey, Enr, EnrKey, EnrPublicKey};
use serde_json::json;

pub struct C17;

fn arr(b: &[u8]) -> [u8; 32] {
    let mut a = [0u8; 32];
    a.copy_from_slice(b);
    a
}

fn near(a: &[u8; 32], target: &[u8; 32], d: u8) -> bool {
    for k in 0..=d {
        if *a == crypto::add32_small(target, k) {
            return true;
        }
        let mut small = [0u8; 32];
        small[31] = k;
        if !crypto::lt(&target[..], &small[..]) && *a == crypto::sub32_small(target, k) {
            return true;
        }
    }
    false
}

impl Property for C17 {
    fn id(&self) -> &'static str {
        "C17"
    }
    fn rule(&self) -> String {
        "cases: (scheme, byte string, port list): secp256k1 imports of 32-byte strings (0,1,2,n-2..n+2,2^256-1, every single-bit pattern, random), ed25519 imports of every length 0..=64 and random 32-byte seeds; after a successful import a record is built with the key and updated once per port. Oracle: accept iff valid (own 256-bit comparison with n; ed25519 iff 32 bytes), public key = independent derivation (libsecp256k1 / sha2+curve25519), export = input, buffer zeroed, records verify under that key by the independent verifier. Non-trivial: scalar within 2 of 0 or n, or a non-zero accepted secret. Distinct by hash of the case.".into()
    }
    fn assumptions(&self) -> Vec<String> {
        vec![
            "libsecp256k1 public-key derivation is correct (cross-checked against k256 at start-up)".into(),
            "ed25519 public keys derived with sha2 + curve25519-dalek, anchored by RFC 8032 vectors".into(),
        ]
    }
    fn entropy_len(&self) -> usize {
        128
    }
    fn random_cases(&self, quick: bool) -> u64 {
        if quick {
            6_000
        } else {
            200_000
        }
    }
    fn exhaustive_part(&self, _q: bool) -> Option<String> {
        Some("secp256k1: 0..=3, n-3..=n+3, 2^256-1, (n-1)/2, all 256 single-bit scalars and their complements; ed25519: every length 0..=64".into())
    }
    fn enumerate(&self, _quick: bool) -> Box<dyn Iterator<Item = Case> + Send + '_> {
        let mut v: Vec<Case> = Vec::new();
        let mut push = |ed: bool, b: Vec<u8>| {
            v.push(Case::KeyImport(KeyImportCase { ed, bytes: b, ports: vec![30303, 0] }))
        };
        let zero = [0u8; 32];
        for k in 0..=3u8 {
            push(false, crypto::add32_small(&zero, k).to_vec());
            push(false, crypto::add32_small(&crypto::N, k).to_vec());
            push(false, crypto::sub32_small(&crypto::N, k).to_vec());
            push(true, crypto::add32_small(&zero, k).to_vec());
        }
        push(false, vec![0xff; 32]);
        push(true, vec![0xff; 32]);
        push(false, crypto::HALF_N.to_vec());
        for bit in 0..256 {
            let mut b = [0u8; 32];
            b[bit / 8] = 1 << (bit % 8);
            push(false, b.to_vec());
            push(true, b.to_vec());
            let c: Vec<u8> = b.iter().map(|x| !x).collect();
            push(false, c);
        }
        for len in 0..=64usize {
            push(true, (0..len).map(|i| (i as u8).wrapping_mul(11).wrapping_add(1)).collect());
        }
        // wrong-length inputs that other ed25519 APIs would accept: seed || public key (64-byte keypair
        // form), seed || seed, seed with a prefix or suffix byte, the 32-byte public key followed by the seed
        for s in crate::keys::pool().ed.iter() {
            let pk = crypto::ed_pk_from_seed(s);
            push(true, [&s[..], &pk[..]].concat());
            push(true, [&s[..], &s[..]].concat());
            push(true, [&pk[..], &s[..]].concat());
            push(true, [&s[..], &[0u8][..]].concat());
            push(true, [&[0u8][..], &s[..]].concat());
            push(false, [&s[..], &pk[..]].concat());
        }
        for s in crate::keys::pool().secp.iter().take(6) {
            push(false, [&[0u8][..], &s[..]].concat());
            push(false, [&s[..], &[0u8][..]].concat());
        }
        // secrets whose 32 bytes look like TEXT in some encoding (hex digits, base64 symbols, decimal digits,
        // printable ASCII, UTF-8): valid scalars / seeds all the same
        for t in [
            &b"0123456789abcdef0123456789abcdef"[..],
            b"0123456789ABCDEF0123456789ABCDEF",
            b"77777777777777777777777777777777",
            b"ffffffffffffffffffffffffffffffff",
            b"00000000000000000000000000000001",
            b"0x0123456789abcdef0123456789abcd",
            b"QUJDREVGR0hJSktMTU5PUFFSU1RVVldY",
            b"-_-_-_-_-_-_-_-_-_-_-_-_-_-_-_-_",
            b"the quick brown fox jumps over!!",
            b"enr:-IS4QHCYrYZbAKWCBRlAy5zzaDZX",
            b"12345678901234567890123456789012",
            b"                                ",
            b"\"secret-key-in-quotes-32-bytes!\"",
        ] {
            push(false, t.to_vec());
            push(true, t.to_vec());
        }
        push(false, "\u{20ac}".repeat(10).as_bytes().iter().copied().chain([b'!', b'!']).collect());
        // every pool secret (edge scalars, mined coordinates, ed25519 seeds whose public key has a rare shape)
        for s in crate::keys::pool().ed.iter() {
            push(true, s.to_vec());
        }
        for s in crate::keys::pool().secp.iter() {
            push(false, s.to_vec());
        }
        // secrets for which the corpus holds records with rarely shaped signatures
        for ed in [false, true] {
            for s in crate::sigshapes::secrets(ed) {
                push(ed, s.to_vec());
            }
        }
        Box::new(v.into_iter())
    }
    fn gen(&self, c: &mut Choices) -> Case {
        let ed = c.chance(100);
        let bytes = if ed {
            if c.chance(60) {
                let n = c.below(65);
                c.bytes(n)
            } else {
                c.bytes(32)
            }
        } else {
            match c.below(8) {
                0 => {
                    // near n
                    let d = c.below(6) as u8;
                    if c.bool() {
                        crypto::add32_small(&crypto::N, d).to_vec()
                    } else {
                        crypto::sub32_small(&crypto::N, d).to_vec()
                    }
                }
                1 => {
                    // >= n region: high bytes ff
                    let mut b = c.bytes(32);
                    for x in b.iter_mut().take(15) {
                        *x = 0xff;
                    }
                    b
                }
                2 => {
                    // small scalars
                    let mut b = vec![0u8; 32];
                    b[31] = c.u8();
                    b[30] = if c.bool() { c.u8() } else { 0 };
                    b
                }
                _ => c.bytes(32),
            }
        };
        let np = c.below(3);
        let ports = (0..np).map(|_| c.u16()).collect();
        Case::KeyImport(KeyImportCase { ed, bytes, ports })
    }
    fn check(&self, case: &Case, st: &mut Stats) -> Result<(), String> {
        let kc = match case {
            Case::KeyImport(k) => k,
            _ => return Err("C17: wrong case type".into()),
        };
        let mut buf = kc.bytes.clone();
        st.evals(1);
        let res = guarded(|| {
            if kc.ed {
                CombinedKey::ed25519_from_bytes(&mut buf)
            } else {
                CombinedKey::secp256k1_from_bytes(&mut buf)
            }
        })
        .map_err(|p| format!("import panicked: {p}"))?;
        if !kc.ed && kc.bytes.len() != 32 {
            // outside the property's domain
            st.unspecified();
            return Ok(());
        }
        let expect_ok = if kc.ed { kc.bytes.len() == 32 } else { crypto::secp_secret_valid(&arr(&kc.bytes)) };
        st.label(&format!("{}-{}", if kc.ed { "ed" } else { "secp" }, if expect_ok { "valid" } else { "invalid" }));
        let nontriv = if kc.ed {
            expect_ok && !crypto::is_zero(&kc.bytes) || (31..=33).contains(&kc.bytes.len())
        } else {
            let a = arr(&kc.bytes);
            near(&a, &crypto::N, 2) || near(&a, &[0u8; 32], 2) || expect_ok
        };
        if nontriv {
            st.nontrivial(case);
            st.sample(&format!("{}-{}", if kc.ed { "ed" } else { "secp" }, if expect_ok { "valid" } else { "invalid" }), || json!(case));
        }
        let key = match (res, expect_ok) {
            (Ok(k), true) => k,
            (Err(_), false) => return Ok(()),
            (Ok(_), false) => return Err(format!("import accepted an invalid secret {}", crate::hexser::hex(&kc.bytes))),
            (Err(e), true) => return Err(format!("import rejected a valid secret {}: {e:?}", crate::hexser::hex(&kc.bytes))),
        };
        if !buf.iter().all(|b| *b == 0) {
            return Err("caller's buffer not zeroed after a successful import".into());
        }
        // the same import from a buffer at every offset 0..=16 inside a larger 16-byte-aligned buffer (sub-slice
        // of a caller's bigger buffer, a field after a u8, ...): the whole 32 bytes are wiped, nothing around
        // them is touched, the key is the same
        #[repr(align(16))]
        struct Aligned([u8; 64]);
        for off in 0..=16usize {
            let mut big = Aligned([0xa5u8; 64]);
            big.0[off..off + 32].copy_from_slice(&kc.bytes);
            let r = guarded(|| {
                if kc.ed {
                    CombinedKey::ed25519_from_bytes(&mut big.0[off..off + 32])
                } else {
                    CombinedKey::secp256k1_from_bytes(&mut big.0[off..off + 32])
                }
            })
            .map_err(|p| format!("import from a buffer at offset {off} panicked: {p}"))?;
            let k2 = r.map_err(|e| format!("import from a buffer at offset {off} of an aligned buffer failed: {e:?}"))?;
            if k2.encode() != kc.bytes {
                return Err(format!("import from a buffer at offset {off}: another key"));
            }
            if let Some(i) = big.0[off..off + 32].iter().position(|b| *b != 0) {
                return Err(format!("caller's buffer (starting {off} bytes past a 16-byte boundary) not wiped after a successful import: byte {i} is left"));
            }
            if big.0[..off].iter().chain(big.0[off + 32..].iter()).any(|b| *b != 0xa5) {
                return Err(format!("import from a buffer at offset {off} wrote outside the 32 bytes"));
            }
        }
        let secret = arr(&kc.bytes);
        let (scheme, want_pk) = if kc.ed {
            (Scheme::Ed, crypto::ed_pk_from_seed(&secret).to_vec())
        } else {
            (Scheme::Secp, crypto::secp_pk_from_secret(&secret).ok_or("reference derivation failed")?.to_vec())
        };
        let got_pk = guarded(|| key.public().encode()).map_err(|p| format!("public() panicked: {p}"))?;
        if got_pk != want_pk {
            return Err(format!("public key {} != independent derivation {}", crate::hexser::hex(&got_pk), crate::hexser::hex(&want_pk)));
        }
        let exp = guarded(|| key.encode()).map_err(|p| format!("encode() panicked: {p}"))?;
        if exp != kc.bytes {
            return Err("export differs from the imported bytes".into());
        }
        match (&key, kc.ed) {
            (CombinedKey::Secp256k1(_), false) | (CombinedKey::Ed25519(_), true) => {}
            _ => return Err("imported key has the wrong variant".into()),
        }
        // the imported key takes over a record that currently carries another key, through every kind of
        // update.  Previous owners: another key of the same scheme; for an imported secp256k1 key also an
        // ed25519 CombinedKey (the record then carries both entries and CombinedKey verifies against the
        // valid secp256k1 one).  (ed25519 taking over a secp256k1 record is the recorded known finding.)
        {
            let owners: Vec<CombinedKey> = if kc.ed {
                vec![CombinedKey::Ed25519(ed25519_dalek::SigningKey::from_bytes(&[7u8; 32]))]
            } else {
                let mut one = [0u8; 32];
                one[31] = 5;
                vec![
                    CombinedKey::Ed25519(ed25519_dalek::SigningKey::from_bytes(&[7u8; 32])),
                    CombinedKey::Secp256k1(k256::ecdsa::SigningKey::from_slice(&one).unwrap()),
                ]
            };
            let port = kc.ports.first().copied().unwrap_or(1);
            for owner in &owners {
                for path in 0..7 {
                    let r = guarded(|| -> Result<(), String> {
                        let mut e = Enr::<CombinedKey>::builder().udp4(9).build(owner).map_err(|e| format!("build: {e:?}"))?;
                        let what = match path {
                            0 => e.set_tcp4(port, &key).map(|_| "set_tcp4"),
                            1 => e.set_udp_socket("10.0.0.1:30303".parse().unwrap(), &key).map(|_| "set_udp_socket"),
                            2 => e.set_tcp_socket("[fe80::1]:9".parse().unwrap(), &key).map(|_| "set_tcp_socket"),
                            3 => e.set_seq(77, &key).map(|_| "set_seq"),
                            4 => e.remove_key("udp", &key).map(|_| "remove_key"),
                            5 => e.insert("x", &port, &key).map(|_| "insert"),
                            _ => e.remove_udp_socket(&key).map(|_| "remove_udp_socket"),
                        }
                        .map_err(|x| format!("take-over update failed: {x:?}"))?;
                        let pairs: Vec<(Vec<u8>, Vec<u8>)> = e.iter().map(|(k, v)| (k.clone(), v.to_vec())).collect();
                        if record::verify_fields(scheme, &want_pk, e.seq(), &pairs, e.signature()) != Verdict::Valid {
                            return Err(format!("record taken over through {what} does not verify under the imported key's public key (independent verifier)"));
                        }
                        if !e.verify() {
                            return Err(format!("record taken over through {what} with the imported key: verify() false"));
                        }
                        if e.public_key().encode() != want_pk {
                            return Err(format!("record taken over through {what}: public_key() is not the imported key's"));
                        }
                        let bytes = alloy_rlp::encode(&e);
                        match record::ref_decode_exact(&bytes, KeyType::Combined) {
                            RefOutcome::Accept(r) if r.pk == want_pk => Ok(()),
                            o => Err(format!("reference decoder does not accept the record taken over through {what}: {o:?}")),
                        }
                    })
                    .map_err(|p| format!("take-over panicked: {p}"))?;
                    r?;
                }
            }
        }
        // committed records signed (by the reference signer) with this very secret whose signature bytes
        // have a rare shape: they verify under the imported key's public key
        for r in crate::sigshapes::corpus().iter().filter(|r| r.ed == kc.ed && r.secret[..] == kc.bytes[..]) {
            let res = guarded(|| -> Result<(), String> {
                let e = <Enr<CombinedKey> as alloy_rlp::Decodable>::decode(&mut r.bytes.as_slice())
                    .map_err(|x| format!("a record correctly signed with the imported secret (signature shape {}) is rejected: {x:?}", r.shape))?;
                if e.public_key().encode() != got_pk {
                    return Err("decoded record's public key is not the imported key's".into());
                }
                if !e.verify() {
                    return Err(format!("verify() false for a correctly signed record (signature shape {})", r.shape));
                }
                let content = crate::refmodel::record::content_from_fields(r.seq, &e.iter().map(|(k, v)| (k.clone(), v.to_vec())).collect::<Vec<_>>());
                if !key.public().verify_v4(&content, &r.sig) {
                    return Err(format!("public().verify_v4 false for a correct signature of shape {}", r.shape));
                }
                Ok(())
            })
            .map_err(|p| format!("sigshape record panicked: {p}"))?;
            res?;
            st.label("sigshape-record");
        }
        // records signed with the imported key verify under that public key
        let r = guarded(|| -> Result<(), String> {
            let mut e = Enr::<CombinedKey>::builder()
                .build(&key)
                .map_err(|e| format!("build with imported key failed: {e:?}"))?;
            let mut recs = vec![e.clone()];
            // builder shapes: entry keys / values around the RLP short/long string boundary, typed
            // fields, large sequence numbers
            for shape in 0..7u8 {
                let mut b = Enr::<CombinedKey>::builder();
                match shape {
                    0 => {
                        b.add_value(vec![b'k'; 56], &1u8);
                    }
                    1 => {
                        b.add_value(vec![b'k'; 55], &vec![7u8; 56]);
                    }
                    2 => {
                        b.add_value(vec![b'z'; 60], &vec![7u8; 60]).seq(u64::MAX);
                    }
                    3 => {
                        b.ip4([10, 0, 0, 1].into()).udp4(30303).tcp6(9).ip6("fe80::1".parse().unwrap());
                    }
                    4 => {
                        b.client_info("n".into(), "v".into(), Some(String::new())).seq(0);
                    }
                    5 => {
                        b.add_value("", &0u8).add_value([0x80u8], &vec![0u8; 1]).seq(1 << 56);
                    }
                    _ => {
                        b.add_value_rlp("list", vec![0xc3, 0x01, 0xc1, 0x02].into());
                    }
                }
                recs.push(b.build(&key).map_err(|e| format!("build (shape {shape}) with imported key failed: {e:?}"))?);
            }
            for p in &kc.ports {
                e.set_udp4(*p, &key).map_err(|e| format!("update with imported key failed: {e:?}"))?;
                recs.push(e.clone());
            }
            for e in recs {
                let pairs: Vec<(Vec<u8>, Vec<u8>)> = e.iter().map(|(k, v)| (k.clone(), v.to_vec())).collect();
                let stored = pairs
                    .iter()
                    .find(|(k, _)| k == scheme.key_name())
                    .map(|(_, v)| v.clone())
                    .ok_or("record lacks the public key entry")?;
                if stored != crate::refmodel::rlp::encode_str(&want_pk) {
                    return Err("record carries another public key".into());
                }
                if record::verify_fields(scheme, &want_pk, e.seq(), &pairs, e.signature()) != Verdict::Valid {
                    return Err("record does not verify under the imported key's public key (independent verifier)".into());
                }
                let bytes = alloy_rlp::encode(&e);
                match record::ref_decode_exact(&bytes, KeyType::Combined) {
                    RefOutcome::Accept(r) if r.pk == want_pk => {}
                    o => return Err(format!("reference decoder does not accept the record: {o:?}")),
                }
                if !e.verify() {
                    return Err("verify() false".into());
                }
            }
            Ok(())
        })
        .map_err(|p| format!("record operations panicked: {p}"))?;
        r
    }
    fn health(&self, st: &Stats, _quick: bool) -> Result<(), String> {
        for l in ["secp-valid", "secp-invalid", "ed-valid", "ed-invalid"] {
            if st.labels.get(l).copied().unwrap_or(0) < 20 {
                return Err(format!("label {l} under-represented"));
            }
        }
        Ok(())
    }
}
