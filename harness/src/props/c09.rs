//! C09 — 300-byte limit: never exceeded, size() exact, refused only when exceeded.
use crate::case::*;
use crate::cases::Case;
use crate::choices::Choices;
use crate::engine::{Property, Stats};
use crate::exec::{run_history, CallRes, Snap, StepCx, Visitor, EK};
use crate::gen::history;
use crate::keys::{Fam, FamId, ALL_FAMS, BUILTIN_FAMS};
use crate::model::{self, Expect};
use crate::props::hist::*;
use crate::refmodel::rlp;
use serde_json::json;

pub struct C09;

struct V<'a> {
    st: &'a mut Stats,
    nontrivial: bool,
}

impl<'a> Visitor for V<'a> {
    fn step<K: Fam>(&mut self, cx: &StepCx<K>) -> Result<(), String> {
        let d = describe_step(cx);
        self.st.evals(1);
        if let (Some(post), true) = (cx.post, cx.res.is_ok()) {
            if post.enc.len() > 300 {
                return Err(format!("{d}: the record encodes to {} bytes", post.enc.len()));
            }
            if post.size != post.enc.len() {
                return Err(format!("{d}: size() = {} but the encoding has {} bytes", post.size, post.enc.len()));
            }
        }
        if matches!(cx.fam(), FamId::Var | FamId::Wide | FamId::Tiny | FamId::Mid | FamId::Nano | FamId::Big | FamId::Clash | FamId::Null) {
            return Ok(()); // exact refusal is claimed for 64-byte signatures only
        }
        if let Some(op) = cx.op {
            if !op.is_mutator() {
                return Ok(());
            }
        }
        let e = match crate::props::c08::expectation(cx, false) {
            Some(e) => e,
            None => return Ok(()),
        };
        let n = model::last_model_size();
        let name = cx.op.map(|o| o.name()).unwrap_or("build");
        let growth = cx.pre.map(|p| rlp::encode_uint(p.seq).len() != rlp::encode_uint(p.seq.wrapping_add(1)).len()).unwrap_or(false) && !matches!(cx.op, Some(Op::SetSeq { .. }));
        let near = (293..=308).contains(&n);
        if near {
            self.nontrivial = true;
            self.st.label(&format!("size:{}:{}:{}", name, if n > 300 { "gt300" } else { "le300" }, if growth { "seq-grows" } else { "seq-same" }));
        }
        let size_refused = matches!(cx.res, CallRes::Err(EK::Size, _));
        match (&e, cx.op) {
            (Expect::MustOk(_), Some(_)) => {
                if size_refused {
                    return Err(format!("{d}: refused for size although the result would be {n} bytes (<= 300)"));
                }
            }
            (Expect::MustErr(kinds), _) if kinds.len() == 1 && kinds.contains(&EK::Size) => {
                match cx.res {
                    CallRes::Err(EK::Size, _) => {}
                    CallRes::Ok(_) => return Err(format!("{d}: accepted although the result would be {n} bytes (> 300)")),
                    CallRes::Err(k, m) => return Err(format!("{d}: result would be {n} bytes (> 300) but the error is {k:?} ({m}), not the size error")),
                    _ => {}
                }
            }
            (Expect::Either(kinds, _), Some(_)) if !kinds.contains(&EK::Size) => {
                // an outcome left open for another reason (e.g. a 65-byte key value) still may not be
                // refused for SIZE when the result fits
                if size_refused {
                    return Err(format!("{d}: refused for size although the result would be {n} bytes (<= 300)"));
                }
            }
            (Expect::MustOk(_), None) | (Expect::Either(..), None) => {
                // builder: nothing at or below 292 bytes is refused for size
                if size_refused && n <= 292 {
                    return Err(format!("{d}: the builder refuses a {n}-byte result for size (slack is at most 8 bytes)"));
                }
            }
            _ => {}
        }
        Ok(())
    }
}

/// one operation per mutator for the size sweep; `fill` is where a filler of the right length goes
fn sweep_ops(fam: FamId) -> Vec<Op> {
    let v4: std::net::SocketAddr = "10.1.2.3:9000".parse().unwrap();
    let v6: std::net::SocketAddr = "[fe80::1]:9001".parse().unwrap();
    vec![
        Op::SetSeq { seq: 0, k: 0 }, // target seq is patched per seq class
        Op::Insert { key: b"eth2".to_vec(), val: TVal::Bytes(vec![1, 2, 3, 4]), k: 0 },
        Op::InsertRaw { key: b"raw".to_vec(), raw: vec![0xc2, 0x01, 0x02], k: 0 },
        Op::SetIp { ip: "192.168.1.9".parse().unwrap(), k: 0 },
        Op::SetIp { ip: "::1".parse().unwrap(), k: 0 },
        Op::SetPort { which: PortKey::Udp, port: 30303, k: 0 },
        Op::SetPort { which: PortKey::Udp6, port: 1, k: 0 },
        Op::SetPort { which: PortKey::Tcp, port: 65535, k: 0 },
        Op::SetPort { which: PortKey::Tcp6, port: 127, k: 0 },
        Op::RemovePort { which: PortKey::Udp, k: 0 },
        Op::RemovePort { which: PortKey::Udp6, k: 0 },
        Op::RemovePort { which: PortKey::Tcp, k: 0 },
        Op::RemovePort { which: PortKey::Tcp6, k: 0 },
        Op::SetClientInfo { name: "n".into(), version: "v".into(), build: None, k: 0 },
        Op::SetSocket { tcp: false, addr: v4, k: 0 },
        Op::SetSocket { tcp: false, addr: v6, k: 0 },
        Op::SetSocket { tcp: true, addr: v4, k: 0 },
        Op::SetSocket { tcp: true, addr: v6, k: 0 },
        Op::RemoveSocket { tcp: false, v6: false, k: 0 },
        Op::RemoveSocket { tcp: false, v6: true, k: 0 },
        Op::RemoveSocket { tcp: true, v6: false, k: 0 },
        Op::RemoveSocket { tcp: true, v6: true, k: 0 },
        Op::RemoveKey { key: b"absent".to_vec(), k: 0 },
        Op::RemoveInsert { remove: vec![b"absent".to_vec()], insert: vec![(b"eth2".to_vec(), vec![9, 9])], k: 0 },
        Op::SetPublicKey { pk_of: 0, k: 0 },
        // the signer's own key in the 65-byte uncompressed form: the stored entry is the 33-byte form
        Op::RemoveInsert {
            remove: vec![],
            insert: vec![(fam.key_name().to_vec(), {
                let pk = fam.ref_pk(&history::exhaustive_keys(fam)[0].0);
                match crate::refmodel::crypto::secp_uncompressed(&pk) {
                    Some(u) => [&[4u8][..], &u[..]].concat(),
                    None => [&pk[..], &[0u8; 9][..]].concat(),
                }
            })],
            k: 0,
        },
    ]
}

fn fake_snap(fam: FamId, secret: &[u8; 32], seq: u64, pairs: &[(Vec<u8>, Vec<u8>)]) -> Snap {
    let mut m: model::Pairs = pairs.iter().cloned().collect();
    m.insert(b"id".to_vec(), rlp::encode_str(b"v4"));
    m.insert(fam.key_name().to_vec(), rlp::encode_str(&fam.ref_pk(secret)));
    Snap { seq, pairs: model::to_vec(&m), sig: vec![], node_id: [0; 32], enc: vec![], size: 0, pk: Ok(vec![]), pk_unc: Ok(vec![]), verify: Ok(true) }
}

/// Solve a filler length so that the model's result size of `op` is exactly `target`.
fn solve(fam: FamId, keys: &[Secret], seq: u64, op: &Op, target: usize, with_base: bool) -> Option<History> {
    let base: Vec<(Vec<u8>, Vec<u8>)> = if !with_base { vec![] } else { vec![(b"udp".to_vec(), rlp::encode_uint(9)), (b"ip".to_vec(), rlp::encode_str(&[9, 9, 9, 9]))] };
    let pk = fam.ref_pk(&keys[0].0);
    let pks: Vec<Vec<u8>> = keys.iter().map(|k| fam.ref_pk(&k.0)).collect();
    let cx = model::Ctx { fam, signer_pk: &pk, fault_pending: false, units: crate::keys::var_units(fam, &keys[0].0) };
    let mut len: isize = 100;
    for _ in 0..8 {
        if len < 0 {
            return None;
        }
        let mut pairs = base.clone();
        pairs.push((b"zz".to_vec(), rlp::encode_str(&vec![0x7a; len as usize])));
        pairs.sort();
        let pre = fake_snap(fam, &keys[0].0, seq, &pairs);
        let _ = model::expect_op(&cx, &pre, op, &pks);
        let n = model::last_model_size();
        if n == target {
            // the initial record itself must be decodable
            if crate::exec::decoded_init_bytes(fam, &keys[0].0, seq, &pairs).len() > 300 {
                return None;
            }
            return Some(History { fam, keys: keys.to_vec(), init: Init::Decoded { seq, pairs }, ops: vec![op.clone()], fault_at: None, alt_keys: vec![] });
        }
        len += target as isize - n as isize;
    }
    None
}

fn solve_builder(fam: FamId, keys: &[Secret], seq: u64, target: usize) -> Option<History> {
    let pk = fam.ref_pk(&keys[0].0);
    let cx = model::Ctx { fam, signer_pk: &pk, fault_pending: false, units: crate::keys::var_units(fam, &keys[0].0) };
    let mut len: isize = 100;
    for _ in 0..8 {
        if len < 0 {
            return None;
        }
        let calls = vec![BCall::Seq(seq), BCall::Port { which: PortKey::Udp, port: 9 }, BCall::AddValue { key: b"zz".to_vec(), val: TVal::Bytes(vec![0x7a; len as usize]) }];
        let _ = model::expect_build(&cx, &calls);
        let n = model::last_model_size();
        if n == target {
            return Some(History { fam, keys: keys.to_vec(), init: Init::Builder { calls }, ops: vec![], fault_at: None, alt_keys: vec![] });
        }
        len += target as isize - n as isize;
    }
    None
}

/// Builder calls whose model result is exactly N bytes, N = 296..=304, for the built-in families: the window in
/// which an off-by-a-few size guard of the builder shows.  Shared with C04 and C05 (a 301-byte record that is
/// handed out does not decode back).
pub fn builder_sweep() -> Vec<History> {
    let mut out = Vec::new();
    for fam in [FamId::K256, FamId::Ed, FamId::CombinedSecp] {
        let keys = history::exhaustive_keys(fam);
        for seq in [1u64, 127, 65535] {
            for n in 296..=304usize {
                if let Some(h) = solve_builder(fam, &keys, seq, n) {
                    out.push(h);
                }
            }
        }
    }
    out
}

impl Property for C09 {
    fn id(&self) -> &'static str {
        "C09"
    }
    fn rule(&self) -> String {
        "cases: size sweep = for every mutator (25 concrete operations covering all 22), the builder, every built-in key family, every target result size N in 294..=306 (quick) / 280..=320 (thorough) and sequence numbers whose encoding does / does not grow on increment (5, 127, 255, 65535, 2^24-1, 2^32-1, 2^56-1), a filler length is solved so that the model's result (new pairs, incremented or target sequence number, 64-byte signature) is exactly N bytes; plus the random and bounded-exhaustive histories of C05 (all families incl. the variable-length-signature scheme). Oracle: every Ok record encodes to <= 300 bytes and size() equals the encoding length; with 64-byte signatures an update is refused for size iff N > 300 when no other cause applies; the builder refuses every N > 300 and nothing <= 292. Non-trivial: a call whose model result size is in 293..=308. Distinct by hash of the history.".into()
    }
    fn assumptions(&self) -> Vec<String> {
        vec!["result sizes are computed by the reference encoder of the map model".into()]
    }
    fn entropy_len(&self) -> usize {
        1500
    }
    fn random_cases(&self, quick: bool) -> u64 {
        if quick {
            8_000
        } else {
            200_000
        }
    }
    fn exhaustive_part(&self, quick: bool) -> Option<String> {
        Some(format!("size sweep: every (operation, family, seq class, N) cell with N in {} that the filler can reach (unreachable cells are counted under label sweep:unreachable)", if quick { "294..=306" } else { "280..=320" }))
    }
    fn enumerate(&self, quick: bool) -> Box<dyn Iterator<Item = Case> + Send + '_> {
        let (lo, hi) = if quick { (294usize, 306usize) } else { (280, 320) };
        let seqs: Vec<u64> = if quick { vec![5, 127, 65535] } else { vec![5, 127, 255, 65535, (1 << 24) - 1, (1 << 32) - 1, (1 << 56) - 1, u64::MAX - 1] };
        let fams: Vec<FamId> = if quick { vec![FamId::K256, FamId::Ed, FamId::CombinedSecp] } else { BUILTIN_FAMS.to_vec() };
        let it = fams.into_iter().flat_map(move |fam| {
            let keys = history::exhaustive_keys(fam);
            let seqs = seqs.clone();
            let ops = sweep_ops(fam);
            (lo..=hi).flat_map(move |n| {
                let keys = keys.clone();
                let ops = ops.clone();
                seqs.clone().into_iter().flat_map(move |s| {
                    let keys2 = keys.clone();
                    let mut v: Vec<Case> = Vec::new();
                    for op in &ops {
                        let op = match op {
                            Op::SetSeq { k, .. } => Op::SetSeq { seq: s.wrapping_add(1), k: *k },
                            o => o.clone(),
                        };
                        for wb in [false, true] {
                            match solve(fam, &keys2, s, &op, n, wb) {
                                Some(h) => v.push(Case::Hist(h)),
                                None => v.push(Case::Hist(History { fam, keys: vec![], init: Init::Builder { calls: vec![] }, ops: vec![], fault_at: None, alt_keys: vec![] })),
                            }
                        }
                    }
                    if let Some(h) = solve_builder(fam, &keys2, s, n) {
                        v.push(Case::Hist(h));
                    }
                    v.into_iter()
                })
            })
        });
        // updates whose result is SMALLER in one part and bigger in another: a sequence number that gets
        // shorter (set_seq from 2^56 to 1) while a signer of the other CombinedKey variant adds its key entry,
        // removals of absent keys under such a signer, at every filler length around the limit
        let cross = [FamId::CombinedEd, FamId::CombinedSecp, FamId::K256].into_iter().flat_map(move |fam| {
            let own = crate::keys::pool().of(fam.scheme());
            let keys = vec![Secret(own[own.len() - 1]), Secret(crate::keys::pool().secp[4 % crate::keys::pool().secp.len()])];
            let alt = if fam == FamId::K256 { vec![] } else { vec![1] };
            let fills: Vec<usize> = if quick { (120..=200).step_by(1).collect() } else { (60..=230).collect() };
            fills.into_iter().flat_map(move |l| {
                let keys = keys.clone();
                let alt = alt.clone();
                [
                    (1u64 << 56, Op::SetSeq { seq: 1, k: 1 }),
                    (1u64 << 56, Op::SetSeq { seq: 1, k: 0 }),
                    (65536, Op::SetSeq { seq: 255, k: 1 }),
                    (127, Op::RemoveKey { key: b"absent".to_vec(), k: 1 }),
                    (255, Op::RemovePort { which: PortKey::Tcp6, k: 1 }),
                    (1u64 << 32, Op::SetPort { which: PortKey::Udp, port: 1, k: 1 }),
                ]
                .into_iter()
                .map(move |(seq, op)| {
                    Case::Hist(History {
                        fam,
                        keys: keys.clone(),
                        init: Init::Decoded { seq, pairs: vec![(b"zz".to_vec(), rlp::encode_str(&vec![0x7a; l]))] },
                        ops: vec![op],
                        fault_at: None,
                        alt_keys: alt.clone(),
                    })
                })
            })
        });
        let ex = [FamId::K256, FamId::Var].into_iter().flat_map(move |f| history::exhaustive(f, if quick { 1 } else { 2 })).chain(history::depth1_rest(&[FamId::K256, FamId::Var])).chain(history::long_repeats(quick)).chain(history::many_pairs(quick)).chain(history::near_limit_sockets(quick)).map(Case::Hist);
        // custom scheme with long signatures: every signature length class 64..=322 through the builder
        // (tiny content: the outer header grows by two bytes once the signature is included) and one update
        let wide = (0..37u8).flat_map(|u| {
            let mut s = [0u8; 32];
            s[0] = 9;
            s[31] = u;
            let keys = vec![Secret(s)];
            let mk = |calls: Vec<BCall>, ops: Vec<Op>| Case::Hist(History { fam: FamId::Wide, keys: keys.clone(), init: Init::Builder { calls }, ops, fault_at: None, alt_keys: vec![] });
            vec![
                mk(vec![], vec![]),
                mk(vec![BCall::Port { which: PortKey::Udp, port: 9 }], vec![]),
                mk(vec![BCall::Seq(255)], vec![Op::SetPort { which: PortKey::Tcp, port: 1, k: 0 }]),
                mk(vec![BCall::AddValue { key: b"z".to_vec(), val: TVal::Bytes(vec![1; 5]) }], vec![Op::SetSeq { seq: 65536, k: 0 }]),
            ]
            .into_iter()
            // signature lengths around the 255/256 boundary with a tiny content: the message-dependent part of the
            // length (0..6 bytes) is swept through the sequence number, so that every total 295..=305 occurs
            .chain((if (24..=35).contains(&u) { 1u64..48 } else { 1u64..1 }).map(|s| mk(vec![BCall::Seq(s)], vec![])).collect::<Vec<_>>())
        });
        // custom scheme whose signature length (50..=61) changes from one signature to the next across the
        // 55/56 boundary of the RLP string header: records right at the limit, small updates
        let mid = (1..=(if quick { 30u64 } else { 200 })).flat_map(|seq| {
            let mut s = [0u8; 32];
            s[0] = 3;
            s[5] = seq as u8;
            let keys = vec![Secret(s)];
            let mut v = Vec::new();
            for target in [300usize, 299, 298, 297] {
                let mut pairs = vec![(b"udp".to_vec(), rlp::encode_uint(9))];
                history::fit_decoded(FamId::Mid, &keys[0].0, seq, &mut pairs, target);
                for op in [
                    Op::SetPort { which: PortKey::Tcp, port: 1, k: 0 },
                    Op::Insert { key: b"a".to_vec(), val: TVal::U8(1), k: 0 },
                    Op::SetPort { which: PortKey::Udp, port: 300, k: 0 },
                    Op::RemoveKey { key: b"absent".to_vec(), k: 0 },
                ] {
                    v.push(Case::Hist(History { fam: FamId::Mid, keys: keys.clone(), init: Init::Decoded { seq, pairs: pairs.clone() }, ops: vec![op], fault_at: None, alt_keys: vec![] }));
                }
            }
            v.into_iter()
        });
        // correctly signed records of every size 295..=310 and around / beyond the points where the outer
        // header grows (256 bytes, 64 KiB, 16 MiB), handed to the decoder
        let big_sizes: Vec<usize> = (150..=190).chain([30, 60, 65_380, 65_400, 65_420, 65_600, 70_000, 200_000]).chain(if quick { vec![] } else { vec![16_777_000, 16_777_300] }).collect();
        let big = big_sizes.into_iter().flat_map(|n| {
            (0..2u64).map(move |j| {
                let e = crate::choices::det_entropy("c09/big", j, 400);
                let mut c = Choices::new(&e);
                let mut d = crate::gen::wire::gen_valid_draft(&mut c);
                d.kv.retain(|(k, _)| {
                    let kp = rlp::decode_exact(k).ok().and_then(|i| i.as_str().map(|s| s.to_vec())).unwrap_or_default();
                    kp == b"id" || kp == d.scheme.key_name()
                });
                d.set(b"zz", rlp::encode_str(&vec![0x7a; n]));
                Case::Wire(crate::cases::WireCase { bytes: crate::gen::wire::valid_bytes(&d), label: format!("signed-with-filler-{n}"), has_custom: true })
            })
        });
        Box::new(it.chain(cross).chain(ex).chain(wide).chain(mid).chain(big))
    }
    fn fuzz_plans(&self) -> Vec<(&'static str, u64)> {
        vec![("history", 10000)]
    }
    fn gen(&self, c: &mut Choices) -> Case {
        Case::Hist(history::gen_history_cross(c))
    }
    fn check(&self, case: &Case, st: &mut Stats) -> Result<(), String> {
        let h = match case {
            Case::Hist(h) => h,
            Case::Wire(w) => {
                // "no record returned by ... the decoder encodes to more than 300 bytes", size() exact
                for kt in crate::refmodel::record::key_types_in_order(crate::case::case_hash(&w.bytes)) {
                    st.evals(1);
                    if let crate::libio::LibOut::Ok(s, n) = crate::libio::decode(kt, &w.bytes) {
                        if s.enc.len() > 300 || n > 300 {
                            return Err(format!("[{kt:?}] decode returns a record of {} bytes (consumed {n}); generated as {}", s.enc.len(), w.label));
                        }
                        if s.size != s.enc.len() {
                            return Err(format!("[{kt:?}] size() = {} but the decoded record encodes to {} bytes", s.size, s.enc.len()));
                        }
                        if w.bytes.len() >= 290 {
                            st.nontrivial(&(kt, &w.bytes));
                        }
                    }
                }
                st.label(if w.bytes.len() > 300 { "wire:gt300" } else { "wire:le300" });
                return Ok(());
            }
            _ => return Err("C09: wrong case type".into()),
        };
        if h.keys.is_empty() {
            st.label("sweep:unreachable");
            return Ok(());
        }
        let mut v = V { st, nontrivial: false };
        run_history(h, false, &mut v)?;
        let nt = v.nontrivial;
        label_history(h, st);
        if nt {
            st.nontrivial(h);
            st.sample(&format!("{}-{}", h.fam.name(), h.ops.first().map(|o| o.name()).unwrap_or("build")), || json!(case));
        }
        Ok(())
    }
    fn health(&self, st: &Stats, _q: bool) -> Result<(), String> {
        let has = |l: &str| st.labels.get(l).copied().unwrap_or(0) > 0;
        for m in ["insert", "insert_raw_rlp", "set_ip", "set_udp4", "set_udp6", "set_tcp4", "set_tcp6", "set_client_info", "set_udp_socket", "set_tcp_socket", "remove_insert", "build"] {
            for side in ["gt300", "le300"] {
                if !has(&format!("size:{m}:{side}:seq-same")) {
                    return Err(format!("no {side} case without seq growth for {m}"));
                }
            }
        }
        for m in ["insert", "set_udp4", "remove_key", "remove_udp4", "remove_tcp6", "remove_udp_socket", "remove_tcp6_socket", "set_tcp_socket", "remove_insert", "set_public_key"] {
            for side in ["gt300", "le300"] {
                if !has(&format!("size:{m}:{side}:seq-grows")) {
                    return Err(format!("no {side} case with seq growth for {m}"));
                }
            }
        }
        if !has("size:set_seq:gt300:seq-same") || !has("size:set_seq:le300:seq-same") {
            return Err("set_seq boundary not reached".into());
        }
        Ok(())
    }
}
