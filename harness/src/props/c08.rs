//! C08 — builder and updates behave like a sorted key/value map (effects, returns, error kinds).
use crate::case::*;
use crate::cases::Case;
use crate::choices::Choices;
use crate::engine::{Property, Stats};
use crate::exec::{run_history, CallRes, StepCx, Visitor};
use crate::gen::history;
use crate::keys::{Fam, FamId, ALL_FAMS};
use crate::model::{self, Expect};
use crate::props::hist::*;
use serde_json::json;

pub struct C08;

pub struct ModelV<'a> {
    pub st: &'a mut Stats,
    pub nontrivial: bool,
    /// signing calls seen so far (to know whether an injected fault is pending)
    pub fault_at: Option<usize>,
}

pub fn expectation<K: Fam>(cx: &StepCx<K>, fault_pending: bool) -> Option<Expect> {
    let signer = cx.signer()?;
    let mcx = model::Ctx { fam: signer.fam, signer_pk: &signer.pk, fault_pending, units: crate::keys::var_units(signer.fam, &signer.secret) };
    match (cx.op, &cx.h.init) {
        (None, Init::Builder { calls }) => Some(model::expect_build(&mcx, calls)),
        (None, Init::BuilderReuse { calls, first }) => {
            // the first build leaves its signer's key entry in the builder; it only survives the second
            // build when that key belongs to the other scheme (cross-scheme CombinedKey)
            let mut calls = calls.clone();
            if let Some(f) = cx.keys.get(*first) {
                if f.fam.key_name() != signer.fam.key_name() {
                    calls.push(BCall::AddValue { key: f.fam.key_name().to_vec(), val: TVal::Bytes(f.pk.clone()) });
                }
            }
            Some(model::expect_build(&mcx, &calls))
        }
        (None, Init::Decoded { .. }) => None,
        (Some(op), _) => {
            let pks: Vec<Vec<u8>> = cx.keys.iter().map(|k| k.pk.clone()).collect();
            Some(model::expect_op(&mcx, cx.pre?, op, &pks))
        }
    }
}

pub fn compare<K: Fam>(cx: &StepCx<K>, e: &Expect) -> Result<(), String> {
    let eff_ok = |eff: &model::Effect| -> Result<(), String> {
        let post = cx.post.ok_or("no record after a successful call")?;
        let want = model::to_vec(&eff.pairs);
        if post.pairs != want {
            return Err(format!(
                "{}: key/value pairs differ from the map model\n  got   {:?}\n  model {:?}",
                describe_step(cx),
                crate::libio::hexpairs(&post.pairs),
                crate::libio::hexpairs(&want)
            ));
        }
        if let CallRes::Ok(ret) = cx.res {
            if cx.op.is_some() && !eff.ret_ok(ret) {
                return Err(format!("{}: returned {:?}, the model expects {:?}", describe_step(cx), ret, (&eff.rets, &eff.remins)));
            }
        }
        Ok(())
    };
    match (e, cx.res) {
        // a panic is C03's violation first; it is also one here when the model leaves no doubt about what the
        // call must do (succeed with a known effect, or fail with an error value of a known kind)
        (Expect::MustOk(_), CallRes::Panic(p)) => Err(format!("{}: the call panicked ({p}) where the map model expects it to succeed", describe_step(cx))),
        (Expect::MustErr(kinds), CallRes::Panic(p)) => Err(format!("{}: the call panicked ({p}) where it must fail with one of {kinds:?}", describe_step(cx))),
        (_, CallRes::Panic(_)) | (_, CallRes::DecodeErr(_)) => Ok(()),
        (Expect::MustOk(eff), CallRes::Ok(_)) => eff_ok(eff),
        (Expect::MustOk(_), CallRes::Err(k, m)) => Err(format!("{}: the call failed ({k:?}: {m}) although no failure cause applies", describe_step(cx))),
        (Expect::MustErr(kinds), CallRes::Ok(_)) => Err(format!("{}: the call succeeded although it must fail with one of {kinds:?}", describe_step(cx))),
        (Expect::MustErr(kinds), CallRes::Err(k, m)) | (Expect::Either(kinds, _), CallRes::Err(k, m)) => {
            if kinds.contains(k) {
                Ok(())
            } else {
                Err(format!("{}: error kind {k:?} ({m}) does not match its cause; admissible: {kinds:?}", describe_step(cx)))
            }
        }
        (Expect::Either(_, eff), CallRes::Ok(_)) => eff_ok(eff),
    }
}

impl<'a> Visitor for ModelV<'a> {
    fn step<K: Fam>(&mut self, cx: &StepCx<K>) -> Result<(), String> {
        let e = match expectation(cx, false) {
            Some(e) => e,
            None => return Ok(()),
        };
        self.st.evals(1);
        if let Some(op) = cx.op {
            self.st.label(&format!("op:{}", op.name()));
            let pre = cx.pre.unwrap();
            let touches_existing = match op {
                Op::Insert { key, .. } | Op::InsertRaw { key, .. } | Op::RemoveKey { key, .. } => pre.get(key).is_some(),
                Op::SetIp { .. } | Op::SetPort { .. } | Op::RemovePort { .. } | Op::SetSocket { .. } | Op::RemoveSocket { .. } | Op::SetClientInfo { .. } => {
                    cx.post.map(|p| p.pairs.len() <= pre.pairs.len()).unwrap_or(false)
                }
                Op::RemoveInsert { remove, insert, .. } => remove.iter().any(|k| pre.get(k).is_some()) || insert.iter().any(|(k, _)| pre.get(k).is_some()),
                _ => false,
            };
            if touches_existing || reserved_via_generic(op) || matches!(cx.res, CallRes::Err(..)) {
                self.nontrivial = true;
            }
            match &e {
                Expect::MustOk(_) => self.st.label("expect:must-ok"),
                Expect::MustErr(_) => self.st.label("expect:must-err"),
                Expect::Either(..) => self.st.label("expect:either"),
            }
        } else {
            self.st.label("op:build");
        }
        compare(cx, &e)
    }
}

impl Property for C08 {
    fn id(&self) -> &'static str {
        "C08"
    }
    fn rule(&self) -> String {
        "cases: call histories as for C05 (builder with arbitrary method calls or decoded boundary record, then 0..12 calls over all 22 mutators with arbitrary keys and values, own or other key of the same scheme; all twelve key families), plus all sequences of length <= 2 over the operation alphabet (61 to 65 concrete calls depending on the family, incl. the identity operations clone / re-decode / re-parse / serde / clone_from). Oracle (model-based, per step, from the observed pre-state): a sorted-map model predicts the pairs after the call (builder pairs + id=v4 + signer key; insert/typed setter replaces exactly one key with the canonical encoding; removals delete exactly the named keys; socket setters write only that family's ip and port key; signer's key always stored; everything else untouched), the return value (previous raw value / decoded previous address or port / removed+overwritten values) and the set of admissible error kinds (size, sequence overflow, ill-typed or malformed value, unsupported id; any of them when several apply). Where the properties are silent (other scheme's key name, malformed inner bytes of list values, CombinedKey precedence) either outcome is admitted. Non-trivial: a step that changes or removes an existing key, passes a reserved key through a generic entry point, or fails. Distinct by hash of the history.".into()
    }
    fn assumptions(&self) -> Vec<String> {
        vec!["the map model is written from the statements of C08/C09/C07, not from the code".into()]
    }
    fn entropy_len(&self) -> usize {
        1500
    }
    fn random_cases(&self, quick: bool) -> u64 {
        if quick {
            12_000
        } else {
            300_000
        }
    }
    fn exhaustive_part(&self, quick: bool) -> Option<String> {
        Some(format!("all operation sequences of length <= {} over the operation alphabet (61 to 65 concrete calls depending on the family, incl. the identity operations clone / re-decode / re-parse / serde / clone_from) from 5 initial records", if quick { 2 } else { 3 }))
    }
    fn enumerate(&self, quick: bool) -> Box<dyn Iterator<Item = Case> + Send + '_> {
        if quick {
            Box::new([FamId::K256, FamId::Ed, FamId::CombinedSecp].into_iter().flat_map(|f| history::exhaustive(f, 2)).chain(history::depth1_rest(&[FamId::K256, FamId::Ed, FamId::CombinedSecp])).chain(history::long_repeats(true)).map(Case::Hist))
        } else {
            let d3 = [FamId::Libsecp].into_iter().flat_map(|f| history::exhaustive(f, 3));
            let d2 = ALL_FAMS.into_iter().filter(|f| *f != FamId::Libsecp).flat_map(|f| history::exhaustive(f, 2));
            Box::new(d3.chain(d2).chain(history::long_repeats(false)).map(Case::Hist))
        }
    }
    fn fuzz_plans(&self) -> Vec<(&'static str, u64)> {
        vec![("history", 10000)]
    }
    fn gen(&self, c: &mut Choices) -> Case {
        Case::Hist(history::gen_history(c, None))
    }
    fn check(&self, case: &Case, st: &mut Stats) -> Result<(), String> {
        let h = match case {
            Case::Hist(h) => h,
            _ => return Err("C08: wrong case type".into()),
        };
        let mut v = ModelV { st, nontrivial: false, fault_at: None };
        run_history(h, false, &mut v)?;
        let nt = v.nontrivial;
        label_history(h, st);
        if nt {
            st.nontrivial(h);
            st.sample(&format!("{}-{}", h.fam.name(), h.ops.first().map(|o| o.name()).unwrap_or("build-only")), || json!(case));
        }
        Ok(())
    }
    fn health(&self, st: &Stats, _q: bool) -> Result<(), String> {
        for m in MUTATOR_NAMES {
            if st.labels.get(&format!("op:{m}")).copied().unwrap_or(0) < 200 {
                return Err(format!("mutator {m} exercised fewer than 200 times"));
            }
        }
        for l in ["expect:must-ok", "expect:must-err"] {
            if st.labels.get(l).copied().unwrap_or(0) < 500 {
                return Err(format!("{l} under-represented"));
            }
        }
        Ok(())
    }
}
