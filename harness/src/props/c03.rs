//! C03 — total functions: no input or call sequence makes the library panic.
use crate::case::*;
use crate::cases::{Case, KeyImportCase, NodeIdCase, TextCase, WireCase};
use crate::choices::Choices;
use crate::engine::{Property, Stats};
use crate::exec::{guarded, run_history, CallRes, StepCx, Visitor};
use crate::gen::{history, wire};
use crate::keys::{Fam, FamId};
use crate::props::hist::*;
use crate::refmodel::b64;
use crate::refmodel::record::ALL_KEY_TYPES;
use crate::with_key_type;
use alloy_rlp::Decodable;
use bytes::Bytes;
use enr::{Enr, EnrKey, EnrKeyUnambiguous, EnrPublicKey, NodeId};
use serde_json::json;
use std::hash::{Hash, Hasher};

pub struct C03;

macro_rules! g {
    ($name:expr, $e:expr) => {
        guarded(|| {
            let _ = $e;
        })
        .map_err(|p| format!("{} panicked: {}", $name, p))?
    };
}

/// Call every public accessor, formatter and conversion on a record.
#[allow(deprecated)]
pub fn exercise<K: Fam>(e: &Enr<K>) -> Result<u64, String> {
    let mut n = 0u64;
    g!("node_id", e.node_id());
    g!("seq", e.seq());
    let mut keys: Vec<Vec<u8>> = e.iter().map(|(k, _)| k.clone()).collect();
    keys.push(b"absent".to_vec());
    keys.push(vec![]);
    for k in &keys {
        g!(format!("get({})", String::from_utf8_lossy(k)), e.get(k));
        g!("get_raw_rlp", e.get_raw_rlp(k));
        g!("get_decodable::<Bytes>", e.get_decodable::<Bytes>(k));
        g!("get_decodable::<u8>", e.get_decodable::<u8>(k));
        g!("get_decodable::<u16>", e.get_decodable::<u16>(k));
        g!("get_decodable::<u64>", e.get_decodable::<u64>(k));
        g!("get_decodable::<String>", e.get_decodable::<String>(k));
        g!("get_decodable::<Vec<Bytes>>", e.get_decodable::<Vec<Bytes>>(k));
        g!("get_decodable::<Vec<u8>>", e.get_decodable::<Vec<u8>>(k));
        g!("get_decodable::<Vec<Vec<u64>>>", e.get_decodable::<Vec<Vec<u64>>>(k));
        g!("get_decodable::<bool>", e.get_decodable::<bool>(k));
        g!("get_decodable::<[u8;4]>", e.get_decodable::<[u8; 4]>(k));
        n += 12;
    }
    g!("iter", e.iter().count());
    g!("ip4", e.ip4());
    g!("ip6", e.ip6());
    g!("id", e.id());
    g!("client_info", e.client_info());
    g!("tcp4", e.tcp4());
    g!("tcp6", e.tcp6());
    g!("udp4", e.udp4());
    g!("udp6", e.udp6());
    g!("udp4_socket", e.udp4_socket());
    g!("udp6_socket", e.udp6_socket());
    g!("tcp4_socket", e.tcp4_socket());
    g!("tcp6_socket", e.tcp6_socket());
    g!("signature", e.signature().len());
    g!("public_key", e.public_key());
    g!("public_key().encode", K::pk_bytes(&e.public_key()));
    g!("public_key().encode_uncompressed", K::pk_uncompressed(&e.public_key()));
    g!("public_key().enr_key", e.public_key().enr_key());
    g!("public_key().verify_v4(arbitrary)", e.public_key().verify_v4(b"msg", &[0u8; 64]));
    g!("public_key().verify_v4(short sig)", e.public_key().verify_v4(b"", &[1u8; 3]));
    g!("verify", e.verify());
    g!("compare_content", e.compare_content(&e.clone()));
    g!("to_base64", e.to_base64());
    g!("size", e.size());
    g!("is_udp_reachable", e.is_udp_reachable());
    g!("is_tcp_reachable", e.is_tcp_reachable());
    g!("Debug", format!("{e:?}"));
    g!("Debug alt", format!("{e:#?}"));
    g!("Display", format!("{e}"));
    // formatter flags: width, precision (shorter and longer than the text), fill/alignment, sign, zero
    g!("Display {:.0}", format!("{e:.0}"));
    g!("Display {:.5}", format!("{e:.5}"));
    g!("Display {:.400}", format!("{e:.400}"));
    g!("Display {:.*} len+1", format!("{:.*}", e.to_base64().len() + 1, e));
    g!("Display {:>400}", format!("{e:>400}"));
    g!("Display {:*^10.3}", format!("{e:*^10.3}"));
    g!("Display {:<400.400}", format!("{e:<400.400}"));
    g!("Display {:+}", format!("{e:+}"));
    g!("Display {:#}", format!("{e:#}"));
    g!("Display {:010}", format!("{e:010}"));
    g!("Debug {:400.400?}", format!("{e:400.400?}"));
    g!("Debug {:.0?}", format!("{e:.0?}"));
    g!("Debug {:#010?}", format!("{e:#010?}"));
    g!("Display/Debug into a sink that formats the record and its node id itself", {
        struct Tagger<'a, K: EnrKey>(&'a Enr<K>, usize);
        impl<'a, K: EnrKey> std::fmt::Write for Tagger<'a, K> {
            fn write_str(&mut self, s: &str) -> std::fmt::Result {
                self.1 += s.len() + format!("{} {:?} {} {:?}", self.0, self.0, self.0.node_id(), self.0.node_id()).len();
                Ok(())
            }
        }
        use std::fmt::Write as _;
        let mut t = Tagger(e, 0);
        let _ = write!(t, "{e} {e:?} {} {:?}", e.node_id(), e.node_id());
        t.1
    });
    g!("NodeId Display flags", format!("{0:.0} {0:.400} {0:>80} {0:+} {0:#} {0:012} {0:*^9.2}", e.node_id()));
    g!("NodeId Debug flags", format!("{0:.0?} {0:.400?} {0:>80?} {0:#?} {0:012?}", e.node_id()));
    g!("Clone+Eq", e.clone() == *e);
    g!("Hash", {
        let mut h = std::collections::hash_map::DefaultHasher::new();
        e.hash(&mut h);
        h.finish()
    });
    g!("Serialize", serde_json::to_string(e));
    g!("into_iter", e.clone().into_iter().count());
    g!("NodeId::from(&enr)", NodeId::from(e));
    g!("NodeId::from(enr)", NodeId::from(e.clone()));
    g!("encode", alloy_rlp::encode(e));
    g!("length", alloy_rlp::Encodable::length(e));
    g!("encode list", alloy_rlp::encode(&vec![e.clone()]));
    g!("NodeId Debug/Display", format!("{:?} {}", e.node_id(), e.node_id()));
    Ok(n + 63)
}

struct V<'a> {
    st: &'a mut Stats,
    nontrivial: bool,
}

fn malformed_arg(op: &Op) -> bool {
    match op {
        Op::InsertRaw { raw, .. } => crate::refmodel::rlp::decode_exact(raw).is_err(),
        Op::Insert { key, .. } | Op::RemoveKey { key, .. } => is_reserved(key),
        Op::RemoveInsert { .. } => reserved_via_generic(op),
        _ => false,
    }
}

impl<'a> Visitor for V<'a> {
    fn step<K: Fam>(&mut self, cx: &StepCx<K>) -> Result<(), String> {
        let d = describe_step(cx);
        if let CallRes::Panic(p) = cx.res {
            return Err(format!("{d}: the call panicked: {p}"));
        }
        if let Some(op) = cx.op {
            if malformed_arg(op) {
                self.nontrivial = true;
            }
        } else if let Init::Builder { calls } | Init::BuilderReuse { calls, .. } = &cx.h.init {
            if calls.iter().any(|c| matches!(c, BCall::AddValueRlp { .. })) {
                self.nontrivial = true;
            }
        }
        if let Some(e) = cx.enr {
            let n = exercise::<K>(e).map_err(|m| format!("{d}: afterwards {m}"))?;
            self.st.evals(n);
        }
        Ok(())
    }
}

fn check_bytes(bytes: &[u8], st: &mut Stats) -> Result<bool, String> {
    let mut got_past_header = false;
    for kt in ALL_KEY_TYPES {
        with_key_type!(kt, K => {
            let r = guarded(|| Enr::<K>::decode(&mut &bytes[..])).map_err(|p| format!("[{kt:?}] decode panicked: {p}"))?;
            st.evals(1);
            if let Ok(e) = r {
                got_past_header = true;
                let fam_exercise = exercise_kt::<K>(&e);
                fam_exercise.map_err(|m| format!("[{kt:?}] on a decoded record: {m}"))?;
            }
            let r = guarded(|| Vec::<Enr<K>>::decode(&mut &bytes[..])).map_err(|p| format!("[{kt:?}] Vec::decode panicked: {p}"))?;
            let _ = r;
        });
    }
    #[cfg(feature = "builtin")]
    g!("k256 decode_public", <k256::ecdsa::SigningKey as EnrKeyUnambiguous>::decode_public(bytes));
    #[cfg(feature = "builtin")]
    g!("libsecp decode_public", <crate::keys::LibsecpKey as EnrKeyUnambiguous>::decode_public(bytes));
    #[cfg(feature = "builtin")]
    g!("ed25519 decode_public", <ed25519_dalek::SigningKey as EnrKeyUnambiguous>::decode_public(bytes));
    if let Ok((true, h, p)) = crate::refmodel::rlp::header_at(bytes) {
        if h + p <= bytes.len() {
            got_past_header = true;
        }
    }
    g!("NodeId::parse", NodeId::parse(bytes));
    let mut b = bytes.to_vec();
    #[cfg(feature = "builtin")]
    g!("CombinedKey::secp256k1_from_bytes", enr::CombinedKey::secp256k1_from_bytes(&mut b));
    let mut b = bytes.to_vec();
    #[cfg(feature = "builtin")]
    g!("CombinedKey::ed25519_from_bytes", enr::CombinedKey::ed25519_from_bytes(&mut b));
    Ok(got_past_header)
}

/// `exercise` for the built-in key types (they all implement Fam)
fn exercise_kt<K: Fam>(e: &Enr<K>) -> Result<u64, String> {
    exercise::<K>(e)
}

fn check_text(s: &str, st: &mut Stats) -> Result<(), String> {
    let quoted = serde_json::to_string(s).unwrap();
    for kt in ALL_KEY_TYPES {
        with_key_type!(kt, K => {
            st.evals(3);
            let r = guarded(|| s.parse::<Enr<K>>()).map_err(|p| format!("[{kt:?}] from_str panicked: {p}"))?;
            if let Ok(e) = r {
                exercise_kt::<K>(&e).map_err(|m| format!("[{kt:?}] on a parsed record: {m}"))?;
            }
            g!(format!("[{kt:?}] serde_json::from_str (quoted)"), serde_json::from_str::<Enr<K>>(&quoted));
            g!(format!("[{kt:?}] serde_json::from_str (raw)"), serde_json::from_str::<Enr<K>>(s));
            g!(format!("[{kt:?}] serde_json::from_slice (raw)"), serde_json::from_slice::<Vec<Enr<K>>>(s.as_bytes()));
        });
    }
    g!("NodeId from JSON (quoted)", serde_json::from_str::<NodeId>(&quoted));
    g!("NodeId from JSON (raw)", serde_json::from_str::<NodeId>(s));
    Ok(())
}

/// RLP of `depth` nested lists around an empty list, built without recursion.
fn nested_lists(depth: usize) -> Vec<u8> {
    fn hdr_len(n: usize) -> usize {
        if n < 56 {
            1
        } else {
            1 + (usize::BITS as usize / 8 - n.leading_zeros() as usize / 8)
        }
    }
    let mut lens = Vec::with_capacity(depth + 1);
    lens.push(1usize);
    for i in 0..depth {
        let l = lens[i];
        lens.push(hdr_len(l) + l);
    }
    let mut out = Vec::with_capacity(lens[depth]);
    for i in (0..depth).rev() {
        let n = lens[i];
        if n < 56 {
            out.push(0xc0 + n as u8);
        } else {
            let be = n.to_be_bytes();
            let skip = be.iter().take_while(|b| **b == 0).count();
            out.push(0xf7 + (8 - skip) as u8);
            out.extend_from_slice(&be[skip..]);
        }
    }
    out.push(0xc0);
    out
}

/// The calls a deeply nested value is handed to, library only (no harness-side parsing of the value: the
/// harness's own recursive RLP reader would be the one to overflow).  Runs in a child process.
fn deep_calls(depth: usize) -> Result<(), String> {
    use crate::keys::{FamId, TinyKey};
    let raw = nested_lists(depth);
    let key = TinyKey([9u8; 32], FamId::Tiny);
    let r = guarded(|| {
        let mut e = Enr::<TinyKey>::builder().build(&key).map_err(|e| format!("{e:?}"))?;
        let _ = e.insert_raw_rlp("deep", bytes::Bytes::from(raw.clone()), &key);
        let _ = e.insert("deep", &crate::exec::ItemEnc(raw.clone()), &key);
        let _ = e.remove_insert(std::iter::empty::<&[u8]>(), vec![("deep", raw.as_slice())].into_iter(), &key);
        let mut b = Enr::<TinyKey>::builder();
        b.add_value_rlp("deep", bytes::Bytes::from(raw.clone()));
        let _ = b.build(&key);
        let _ = <Enr<TinyKey> as alloy_rlp::Decodable>::decode(&mut raw.as_slice());
        let _ = Vec::<Enr<TinyKey>>::decode(&mut raw.as_slice());
        Ok::<(), String>(())
    });
    match r {
        Ok(x) => x,
        Err(p) => Err(format!("a {depth}-deep nested list value made a call panic: {p}")),
    }
}

/// Deep-nesting cases run in a child process: a stack overflow aborts the process and cannot be caught.
fn deep_case(depth: usize, case: &Case) -> Result<(), String> {
    if std::env::var("VERIF_CHILD").is_ok() {
        return deep_calls(depth);
    }
    let dir = std::path::PathBuf::from(std::env::var("VERIF_DIR").unwrap_or_else(|_| "/verif".into())).join("replays");
    let _ = std::fs::create_dir_all(&dir);
    let file = dir.join(format!("child-C03-deep-{depth}-{}.json", std::process::id()));
    std::fs::write(&file, serde_json::to_string(&crate::engine::replay_doc("C03", case, "deep nesting (child process)")).unwrap()).map_err(|e| format!("cannot write {file:?}: {e}"))?;
    let exe = std::env::current_exe().map_err(|e| format!("current_exe: {e}"))?;
    let out = std::process::Command::new(exe).args(["C03", "--replay"]).arg(&file).env("VERIF_CHILD", "1").env("VERIF_AUX", "1").output().map_err(|e| format!("cannot spawn the child process: {e}"))?;
    let _ = std::fs::remove_file(&file);
    match out.status.code() {
        Some(0) => Ok(()),
        Some(1) => Err(format!("{}", String::from_utf8_lossy(&out.stdout).lines().find(|l| l.contains("violation detail")).unwrap_or("violation in the child process"))),
        other => Err(format!(
            "a value of {depth} nested lists ({} bytes) handed to insert_raw_rlp / insert / remove_insert / add_value_rlp+build / decode killed the process (exit {other:?}): {}",
            nested_lists(depth).len(),
            String::from_utf8_lossy(&out.stderr).lines().rev().find(|l| !l.trim().is_empty()).unwrap_or("")
        )),
    }
}

impl Property for C03 {
    fn id(&self) -> &'static str {
        "C03"
    }
    fn rule(&self) -> String {
        "cases: (a) byte strings: the generated inputs of C01/C02 (valid records, tampers, re-signed structural mutants) and unstructured bytes, handed to decode / Vec::decode / decode_public of every key type, NodeId::parse and the CombinedKey importers; (b) strings: texts of C12 and unstructured strings handed to from_str and to serde_json (quoted and raw) for Enr<K> and NodeId; (c) call histories as for C05 (malformed raw RLP, reserved keys through generic entry points, all eleven families). After every step of every history and on every accepted record, 58+12*keys public accessors / formatters / conversions are called (get, get_decodable for 10 types, typed getters, sockets, public_key, verify, Debug, Display, serde, Hash, iteration, NodeId conversions, encode ...). Oracle: every call runs under catch_unwind; any panic is a violation (Result::Err is the contract and never one); a call still running after 20 CPU-seconds of its thread is reported as non-termination. Non-trivial: a history with a malformed/ill-typed argument or reserved key through a generic entry point, or an input that gets past the outer list header. Distinct by hash of the case.".into()
    }
    fn assumptions(&self) -> Vec<String> {
        vec![
            "non-termination is approximated by a 20 CPU-second bound per case".into(),
            "process aborts (stack overflow, OOM) would surface as a crashed check, not as a VIOLATION line".into(),
        ]
    }
    fn entropy_len(&self) -> usize {
        1500
    }
    fn random_cases(&self, quick: bool) -> u64 {
        if quick {
            20_000
        } else {
            400_000
        }
    }
    fn enumerate(&self, quick: bool) -> Box<dyn Iterator<Item = Case> + Send + '_> {
        let ex = [FamId::K256, FamId::CombinedEd].into_iter().flat_map(move |f| history::exhaustive(f, if quick { 1 } else { 2 })).chain(history::depth1_rest(&[FamId::K256, FamId::CombinedEd])).map(Case::Hist);
        // every byte value as a 1-byte input, every 2-byte header pattern
        let small = (0..=255u8).map(|b| Case::Wire(WireCase { bytes: vec![b], label: "one-byte".into(), has_custom: false }));
        let hdr = (0xb7..=0xffu8).flat_map(|a| {
            [0u8, 1, 0x37, 0x38, 0x7f, 0x80, 0xff].into_iter().map(move |b| Case::Wire(WireCase { bytes: vec![a, b, b, b, b, b, b, b, b, 0xc0], label: "header".into(), has_custom: false }))
        });
        let texts = crate::props::c12::head_edits().into_iter().map(Case::Text);
        // values nested far deeper than any record could hold (argument size is not bounded by the record limit)
        let depths: Vec<usize> = if quick { vec![5_000, 50_000, 400_000] } else { vec![5_000, 50_000, 400_000, 1_500_000] };
        let deep = depths.into_iter().map(|d| Case::Stream(crate::cases::StreamCase { items: vec![], suffix: vec![], as_list: false, label: format!("deep-nesting:{d}") }));
        let texts = texts.chain(deep);
        Box::new(ex.chain(small).chain(hdr).chain(texts))
    }
    fn fuzz_plans(&self) -> Vec<(&'static str, u64)> {
        vec![("wire_raw", 30000), ("history", 6000)]
    }
    fn gen(&self, c: &mut Choices) -> Case {
        match c.below(10) {
            0..=3 => Case::Hist(history::gen_history_cross(c)),
            4 | 5 => {
                // wire: C01-style
                match crate::props::c01::C01.gen(c) {
                    Case::Wire(w) => Case::Wire(w),
                    o => o,
                }
            }
            6 => {
                let n = c.below(400);
                Case::Wire(WireCase { bytes: c.bytes(n), label: "unstructured".into(), has_custom: false })
            }
            7 => {
                // a nested / long-length header torture input
                let depth = c.range(1, 60);
                let mut b = vec![0xc1u8; depth];
                b.extend(c.bytes(8));
                let mut o = Vec::new();
                crate::refmodel::rlp::enc_list_payload(&mut o, &b);
                Case::Wire(WireCase { bytes: o, label: "nested".into(), has_custom: false })
            }
            8 => match crate::props::c12::C12.gen(c) {
                Case::Text(t) => Case::Text(t),
                o => o,
            },
            _ => {
                const CS: &[&str] = &["enr:", "\"", "-", "_", "A", "=", " ", "0x", "[", "]", "{", "}", "\\u0000", "é", ":", ",", "null", "9"];
                let n = c.below(40);
                let mut s = String::new();
                for _ in 0..n {
                    let t: &str = *c.pick::<&str>(CS);
                    s.push_str(t);
                }
                Case::Text(TextCase { s, label: "unstructured".into() })
            }
        }
    }
    fn check(&self, case: &Case, st: &mut Stats) -> Result<(), String> {
        match case {
            Case::Stream(s) if s.label.starts_with("deep-nesting:") => {
                let depth: usize = s.label["deep-nesting:".len()..].parse().map_err(|_| "bad deep-nesting label".to_string())?;
                st.evals(6);
                st.label("kind:deep-nesting");
                st.nontrivial(&s.label);
                deep_case(depth, case)
            }
            Case::Hist(h) => {
                let mut v = V { st, nontrivial: false };
                run_history(h, false, &mut v)?;
                let nt = v.nontrivial;
                st.label("kind:history");
                if nt {
                    st.nontrivial(h);
                    st.sample(&format!("hist-{}", h.fam.name()), || json!(case));
                }
                Ok(())
            }
            Case::Wire(w) => {
                st.label("kind:bytes");
                let deep = check_bytes(&w.bytes, st)?;
                check_text(&format!("enr:{}", b64::encode(&w.bytes)), st)?;
                if deep {
                    st.nontrivial(&w.bytes);
                    st.sample(&format!("bytes-{}", crate::props::c02::base_label(&w.label)), || json!(case));
                }
                Ok(())
            }
            Case::Text(t) => {
                st.label("kind:text");
                check_text(&t.s, st)?;
                if t.s.len() > 8 {
                    st.nontrivial(&t.s);
                    st.sample(&format!("text-{}", t.label), || json!(case));
                }
                Ok(())
            }
            Case::NodeId(NodeIdCase::Json(s)) | Case::NodeId(NodeIdCase::Hex(s)) => check_text(s, st),
            Case::NodeId(NodeIdCase::Slice(b)) | Case::NodeId(NodeIdCase::Raw32(b)) => check_bytes(b, st).map(|_| ()),
            Case::KeyImport(KeyImportCase { bytes, .. }) => check_bytes(bytes, st).map(|_| ()),
            _ => Err("C03: wrong case type".into()),
        }
    }
    fn health(&self, st: &Stats, _q: bool) -> Result<(), String> {
        for l in ["kind:history", "kind:bytes", "kind:text"] {
            if st.labels.get(l).copied().unwrap_or(0) < 500 {
                return Err(format!("{l} under-represented"));
            }
        }
        Ok(())
    }
}
