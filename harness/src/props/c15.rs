//! C15 — equality, hashing and content comparison are coherent.
use crate::case::*;
use crate::cases::Case;
use crate::choices::Choices;
use crate::engine::{Property, Stats};
use crate::exec::{guarded, run_history, snap, Snap, StepCx, Visitor};
#[allow(unused_imports)]
use alloy_rlp::Decodable as _;
use crate::gen::history;
use crate::keys::{Fam, FamId, ALL_FAMS};
use crate::props::hist::*;
use alloy_rlp::Decodable;
use enr::Enr;
use serde_json::json;
use std::any::Any;
use std::hash::{Hash, Hasher};

pub struct C15;

struct V<'a> {
    st: &'a mut Stats,
    /// records collected along the history (type-erased `Enr<K>`), with snapshot and origin
    recs: Vec<(Box<dyn Any>, Snap, &'static str)>,
    nontrivial: bool,
    stop: bool,
}

fn hash_of<K: Fam>(e: &Enr<K>) -> u64 {
    let mut h = std::collections::hash_map::DefaultHasher::new();
    e.hash(&mut h);
    h.finish()
}

fn relate<K: Fam>(a: &Enr<K>, sa: &Snap, b: &Enr<K>, sb: &Snap, st: &mut Stats) -> Result<bool, String> {
    st.evals(1);
    let eq = a == b;
    if eq != (b == a) {
        return Err("equality is not symmetric".into());
    }
    // `!=` is the negation of `==`, and containers built on element comparison agree
    #[allow(clippy::nonminimal_bool)]
    if (a != b) == eq || (b != a) == eq {
        return Err(format!("a != b is {} while a == b is {eq}", a != b));
    }
    if (vec![a.clone()] == vec![b.clone()]) != eq || ((a.clone(), 1u8) != (b.clone(), 1u8)) == eq || (Some(a) == Some(b)) != eq {
        return Err(format!("Vec / tuple / Option comparison of the two records disagrees with a == b ({eq})"));
    }
    let same_id = sa.seq == sb.seq && sa.pk == sb.pk && sa.sig == sb.sig;
    if eq != same_id {
        return Err(format!(
            "a == b is {eq} but (seq, public key, signature) equal is {same_id} (seq {} vs {}, same key {}, same signature {})",
            sa.seq,
            sb.seq,
            sa.pk == sb.pk,
            sa.sig == sb.sig
        ));
    }
    // "equal records carry identical pairs" presupposes a signature that binds the content: the toy
    // scheme with one-byte signatures (family Nano) collides once in 256 contents, so the consequence is
    // only demanded for signatures of at least 6 bytes
    let binding = sa.sig.len() >= 6;
    if eq && !binding {
        st.label("eq-under-non-binding-signature");
    }
    if eq && binding {
        if sa.pairs != sb.pairs {
            return Err("equal records carry different key/value pairs".into());
        }
        if sa.enc != sb.enc {
            return Err("equal records encode differently".into());
        }
        if hash_of(a) != hash_of(b) {
            return Err("equal records hash differently".into());
        }
    }
    let cc = a.compare_content(b);
    if cc != b.compare_content(a) {
        return Err("compare_content is not symmetric".into());
    }
    let same_content = sa.seq == sb.seq && sa.pairs == sb.pairs;
    if cc != same_content {
        return Err(format!("compare_content is {cc} but (seq, pairs) equal is {same_content}"));
    }
    // shares at least two of {seq, key, content} and differs in the third, or equal by different routes
    let shared = [sa.seq == sb.seq, sa.pk == sb.pk, sa.pairs == sb.pairs].iter().filter(|x| **x).count();
    Ok(shared == 2 || eq)
}

impl<'a> Visitor for V<'a> {
    fn step<K: Fam>(&mut self, cx: &StepCx<K>) -> Result<(), String> {
        if self.stop || matches!(cx.res, crate::exec::CallRes::Panic(_) | crate::exec::CallRes::DecodeErr(_)) {
            return Ok(());
        }
        let (post, enr) = match (cx.post, cx.enr) {
            (Some(p), Some(e)) => (p, e),
            _ => return Ok(()),
        };
        if !cx.res.is_ok() {
            // the record the caller still holds after a failed call takes part in the relations too
            // (it must still be coherent with the records collected before the call)
            let r = enr.clone();
            let d = describe_step(cx);
            for (old, so, _) in &self.recs {
                let old = old.downcast_ref::<Enr<K>>().expect("same family throughout a history");
                if relate::<K>(old, so, &r, post, self.st).map_err(|m| format!("{d} (record after the failed call): {m}"))? {
                    self.nontrivial = true;
                }
            }
            if self.recs.len() < 40 {
                self.recs.push((Box::new(r), post.clone(), "after-failed-call"));
            }
            return Ok(());
        }
        let fam = cx.fam();
        if known_combined_state(fam, post) && !crate::engine::strict() && crate::engine::is_known(crate::props::c05::KNOWN_COMBINED_ED) {
            self.st.known(crate::props::c05::KNOWN_COMBINED_ED);
            self.stop = true;
            return Ok(());
        }
        let d = describe_step(cx);
        // derived records: clone, decode-after-encode image, re-signing of the same content
        let mut news: Vec<(Enr<K>, &'static str)> = vec![(enr.clone(), "step")];
        news.push((enr.clone(), "clone"));
        if let Ok(Ok(r)) = guarded(|| Enr::<K>::decode(&mut post.enc.as_slice())) {
            news.push((r, "redecode"));
        } else {
            return Err(format!("{d}: the record does not decode back from its encoding"));
        }
        if self.recs.len() < 12 {
            let mut r = enr.clone();
            if let Ok(Ok(())) = guarded(|| r.set_seq(post.seq, &cx.real_keys[cx.op.and_then(|o| o.signer()).unwrap_or(0)])) {
                news.push((r, "resign-same-content"));
            }
            if post.seq < u64::MAX {
                let mut r = enr.clone();
                if let Ok(Ok(())) = guarded(|| r.set_seq(post.seq + 1, &cx.real_keys[cx.op.and_then(|o| o.signer()).unwrap_or(0)])) {
                    news.push((r, "seq-plus-one"));
                }
            }
        }
        // a == a.clone(), a == decode(encode(a))
        let base = &news[0].0;
        for (r, how) in &news[1..3] {
            if r != base {
                return Err(format!("{d}: a record is not equal to its {how}"));
            }
        }
        for (r, how) in news {
            let s = snap(&r);
            // reflexive
            #[allow(clippy::eq_op)]
            if r != r {
                return Err(format!("{d}: equality is not reflexive ({how})"));
            }
            for (old, so, _) in &self.recs {
                let old = old.downcast_ref::<Enr<K>>().expect("same family throughout a history");
                if relate::<K>(old, so, &r, &s, self.st).map_err(|m| format!("{d} ({how}): {m}"))? {
                    self.nontrivial = true;
                }
            }
            if self.recs.len() < 40 {
                self.recs.push((Box::new(r), s, how));
            }
        }
        Ok(())
    }
}

fn transitivity<K: Fam>(v: &V) -> Result<(), String> {
    let rs: Vec<&Enr<K>> = v.recs.iter().filter_map(|(b, _, _)| b.downcast_ref::<Enr<K>>()).collect();
    let n = rs.len().min(24);
    for i in 0..n {
        for j in 0..n {
            if rs[i] != rs[j] {
                continue;
            }
            for k in 0..n {
                if rs[j] == rs[k] && rs[i] != rs[k] {
                    return Err("equality is not transitive".into());
                }
            }
        }
    }
    Ok(())
}

impl Property for C15 {
    fn id(&self) -> &'static str {
        "C15"
    }
    fn rule(&self) -> String {
        "cases: call histories as for C05; along each history every record obtained is collected together with its clone, its decode-after-encode image, a re-signing of the same content (set_seq to the same number: new signature for ECDSA, identical for Ed25519) and a seq+1 variant; later steps add one-field edits and re-keyings. Oracle on every pair (up to 40 records per history) and on triples: a == b iff (seq, public-key bytes, signature) are equal; equal records have identical pairs, identical encodings and equal hashes under a fixed hasher; reflexive, symmetric, transitive; a == a.clone() == decode(encode(a)); compare_content(a,b) iff (seq, pairs) equal, symmetric. Non-trivial: a pair sharing exactly two of {seq, key, content}, or an equal pair obtained by different routes. Distinct by hash of the history.".into()
    }
    fn assumptions(&self) -> Vec<String> {
        vec!["hash equality is checked under std's DefaultHasher with fixed keys".into()]
    }
    fn entropy_len(&self) -> usize {
        1500
    }
    fn random_cases(&self, quick: bool) -> u64 {
        if quick {
            6_000
        } else {
            150_000
        }
    }
    fn enumerate(&self, quick: bool) -> Box<dyn Iterator<Item = Case> + Send + '_> {
        let hists = ALL_FAMS.into_iter().flat_map(move |f| history::exhaustive(f, if quick { 1 } else { 2 })).map(Case::Hist);
        // pairs of independently made wire records that share some of {seq, key, content, signature}:
        // same content under two keys, same key with two contents, and records under the small-order
        // ed25519 key in its different encodings (same signature bytes, different key bytes)
        let n = if quick { 60u64 } else { 1500 };
        let pairs = (0..n).map(|j| {
            use crate::gen::wire;
            let e = crate::choices::det_entropy("c15/pairs", j, 1400);
            let mut c = Choices::new(&e);
            let mut d = wire::gen_valid_draft(&mut c);
            if d.size_with_sig(64) > 300 {
                wire::solve_size(&mut d, 300, &mut c);
            }
            let a = wire::valid_bytes(&d);
            let mut items = vec![a.clone(), a];
            // same content, other key of the scheme
            let mut d2 = d.clone();
            if d2.forced_sig.is_none() {
                d2.secret = wire::pick_secret(&mut c, d.scheme);
                d2.set(d.scheme.key_name(), crate::refmodel::rlp::encode_str(&wire::ref_pk(d.scheme, &d2.secret)));
                items.push(wire::valid_bytes(&d2));
            }
            // same key, seq + 1
            let mut d3 = d.clone();
            d3.seq_raw = crate::refmodel::rlp::encode_uint(j + 2);
            items.push(wire::valid_bytes(&d3));
            // the three encodings of the neutral ed25519 point with the universal signature
            for enc in 0..3u8 {
                let mut pk = [0u8; 32];
                match enc {
                    0 => pk[0] = 1,
                    1 => {
                        pk = [0xff; 32];
                        pk[0] = 0xee;
                        pk[31] = 0x7f;
                    }
                    _ => {
                        pk[0] = 1;
                        pk[31] = 0x80;
                    }
                }
                let mut w = d.clone();
                w.remove(b"secp256k1");
                w.scheme = crate::refmodel::record::Scheme::Ed;
                w.set(b"ed25519", crate::refmodel::rlp::encode_str(&pk));
                let mut sig = vec![0u8; 64];
                sig[0] = 1;
                w.forced_sig = Some(sig);
                if w.size_with_sig(64) <= 300 {
                    items.push(wire::valid_bytes(&w));
                }
            }
            Case::Stream(crate::cases::StreamCase { items, suffix: vec![], as_list: false, label: "pairs".into() })
        });
        Box::new(hists.chain(pairs))
    }
    fn fuzz_plans(&self) -> Vec<(&'static str, u64)> {
        vec![("history", 5000)]
    }
    fn gen(&self, c: &mut Choices) -> Case {
        Case::Hist(history::gen_history_cross(c))
    }
    fn check(&self, case: &Case, st: &mut Stats) -> Result<(), String> {
        let h = match case {
            Case::Hist(h) => h,
            Case::Stream(s) => {
                // records that did not come out of one history: decode each item and relate all pairs
                for kt in crate::refmodel::record::ALL_KEY_TYPES {
                    crate::with_key_type!(kt, K => {
                        let recs: Vec<(Enr<K>, Snap, usize)> = s
                            .items
                            .iter()
                            .enumerate()
                            .filter_map(|(n, b)| guarded(|| Enr::<K>::decode(&mut b.as_slice())).ok().and_then(|r| r.ok()).map(|e| (n, e)))
                            .map(|(n, e)| {
                                let sn = snap(&e);
                                (e, sn, n)
                            })
                            .collect();
                        for i in 0..recs.len() {
                            for j in 0..recs.len() {
                                if relate::<K>(&recs[i].0, &recs[i].1, &recs[j].0, &recs[j].1, st).map_err(|m| format!("[{kt:?}] decoded items {} and {}: {m}", recs[i].2, recs[j].2))? && i != j {
                                    st.nontrivial(&(kt, i, j, &s.items));
                                }
                            }
                        }
                        if recs.len() >= 2 {
                            st.label("wire-pairs");
                            st.sample("wire-pair", || json!(case));
                        }
                    });
                }
                return Ok(());
            }
            _ => return Err("C15: wrong case type".into()),
        };
        let mut v = V { st, recs: Vec::new(), nontrivial: false, stop: false };
        run_history(h, false, &mut v)?;
        match h.fam {
            FamId::K256 => transitivity::<crate::keys::K256Key>(&v)?,
            FamId::Libsecp => transitivity::<crate::keys::LibsecpKey>(&v)?,
            FamId::Ed => transitivity::<crate::keys::EdKey>(&v)?,
            FamId::CombinedSecp | FamId::CombinedEd => transitivity::<crate::keys::CombKey>(&v)?,
            FamId::Var | FamId::Wide => transitivity::<crate::keys::VarKey>(&v)?,
            FamId::Tiny | FamId::Mid | FamId::Nano | FamId::Big | FamId::Clash | FamId::Null => transitivity::<crate::keys::TinyKey>(&v)?,
        }
        let nt = v.nontrivial;
        drop(v);
        label_history(h, st);
        if nt {
            st.nontrivial(h);
            st.sample(&format!("{}-{}", h.fam.name(), h.ops.first().map(|o| o.name()).unwrap_or("init")), || json!(case));
        }
        Ok(())
    }
}
