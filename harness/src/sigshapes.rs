//! Valid records whose signature bytes have a rare shape (DER look-alike prefix, zero runs, header
//! look-alikes, recovery-id look-alike endings).  Random signing reaches a two-byte shape once in 65536
//! signatures, so the records are ground once (`enrcheck --grind-sigshapes`) with the reference signer
//! and committed as corpus/sigshapes.json; the checks re-validate each with the reference decoder.
use crate::gen::wire::{self, Draft};
use crate::refmodel::record::Scheme;
use crate::refmodel::rlp;
use serde::{Deserialize, Serialize};

#[derive(Clone, Debug, Serialize, Deserialize)]
pub struct ShapeRec {
    pub shape: String,
    pub ed: bool,
    #[serde(with = "crate::hexser::arr32")]
    pub secret: [u8; 32],
    pub seq: u64,
    #[serde(with = "crate::hexser")]
    pub sig: Vec<u8>,
    #[serde(with = "crate::hexser")]
    pub bytes: Vec<u8>,
}

pub const SHAPES: [(&str, fn(&[u8]) -> bool); 18] = [
    ("der-30-3e", |s| s[0] == 0x30 && s[1] == 0x3e),
    ("der-30-40", |s| s[0] == 0x30 && s[1] == 0x40),
    ("rlp-b8-40", |s| s[0] == 0xb8 && s[1] == 0x40),
    ("r-00", |s| s[0] == 0),
    ("r-0000", |s| s[0] == 0 && s[1] == 0),
    ("s-00", |s| s[32] == 0),
    ("s-0000", |s| s[32] == 0 && s[33] == 0),
    ("r-00-s-00", |s| s[0] == 0 && s[32] == 0),
    ("r-ffff", |s| s[0] == 0xff && s[1] == 0xff),
    ("r-80", |s| s[0] == 0x80),
    ("first-04", |s| s[0] == 0x04),
    ("first-40", |s| s[0] == 0x40),
    ("last-00", |s| s[63] == 0),
    ("last-01", |s| s[63] == 1),
    ("last-1b", |s| s[63] == 0x1b),
    ("last-1c", |s| s[63] == 0x1c),
    ("last-0000", |s| s[63] == 0 && s[62] == 0),
    ("mid-0000", |s| s[31] == 0 && s[32] == 0),
];

pub fn secrets(ed: bool) -> Vec<[u8; 32]> {
    let mut a = [0u8; 32];
    a[31] = if ed { 9 } else { 3 };
    let mut b = [0x5au8; 32];
    b[0] = if ed { 0x11 } else { 0x22 };
    vec![a, b]
}

fn draft(ed: bool, secret: [u8; 32], seq: u64) -> Draft {
    let scheme = if ed { Scheme::Ed } else { Scheme::Secp };
    let mut d = Draft { scheme, secret, alt_signer: false, seq_raw: rlp::encode_uint(seq), kv: vec![], has_custom: false, forced_sig: None };
    d.set(b"id", rlp::encode_str(b"v4"));
    d.set(scheme.key_name(), rlp::encode_str(&wire::ref_pk(scheme, &secret)));
    d
}

/// Grind until every shape has a record for both schemes; at most `max` signatures per scheme.
pub fn grind(max: u64) -> Vec<ShapeRec> {
    let mut out = Vec::new();
    for ed in [false, true] {
        let secs = secrets(ed);
        let mut missing: Vec<usize> = (0..SHAPES.len()).collect();
        let mut seq = 1u64;
        while !missing.is_empty() && seq <= max {
            let secret = secs[(seq % 2) as usize];
            let d = draft(ed, secret, seq);
            let sig = wire::sign_draft(&d, wire::SignOver::Literal);
            if sig.len() == 64 {
                let hit: Vec<usize> = missing.iter().copied().filter(|i| (SHAPES[*i].1)(&sig)).collect();
                if !hit.is_empty() {
                    let bytes = wire::assemble(&sig, &d, wire::Outer::Canonical);
                    for i in &hit {
                        out.push(ShapeRec { shape: SHAPES[*i].0.into(), ed, secret, seq, sig: sig.clone(), bytes: bytes.clone() });
                    }
                    missing.retain(|i| !hit.contains(i));
                }
            }
            seq += 1;
        }
    }
    out
}

pub fn corpus() -> &'static [ShapeRec] {
    static C: std::sync::OnceLock<Vec<ShapeRec>> = std::sync::OnceLock::new();
    C.get_or_init(|| serde_json::from_str(include_str!("../../corpus/sigshapes.json")).expect("corpus/sigshapes.json"))
}

// ---------------------------------------------------------------------------------------------
// ed25519 seeds whose PUBLIC KEY bytes have a rare shape (ground once: `enrcheck --grind-edkeys`,
// committed as corpus/edkeys.json, added to the ed25519 key pool)

#[derive(Clone, Debug, Serialize, Deserialize)]
pub struct EdKeyRec {
    pub shape: String,
    #[serde(with = "crate::hexser::arr32")]
    pub seed: [u8; 32],
    #[serde(with = "crate::hexser")]
    pub pk: Vec<u8>,
}

pub const ED_SHAPES: [(&str, fn(&[u8]) -> bool); 12] = [
    // looks like a non-reduced y (>= 2^255 - 19) to a sloppy check: first byte >= ed, last 7f/ff, an ff inside
    ("y-looks-unreduced", |p| p[0] >= 0xed && p[31] & 0x7f == 0x7f && p[1..31].contains(&0xff)),
    ("first-ge-ed-last-7f", |p| p[0] >= 0xed && p[31] == 0x7f),
    ("last-7f", |p| p[31] == 0x7f),
    ("last-ff", |p| p[31] == 0xff),
    ("last-80", |p| p[31] == 0x80),
    ("last-00", |p| p[31] == 0x00),
    ("first-ff", |p| p[0] == 0xff),
    ("first-ed", |p| p[0] == 0xed),
    ("first-0000", |p| p[0] == 0 && p[1] == 0),
    ("ffff-inside", |p| p.windows(2).any(|w| w == [0xff, 0xff])),
    ("first-02", |p| p[0] == 0x02),
    ("first-03", |p| p[0] == 0x03),
];

pub fn grind_edkeys(max: u64) -> Vec<EdKeyRec> {
    let mut missing: Vec<usize> = (0..ED_SHAPES.len()).collect();
    let mut out = Vec::new();
    let mut j = 0u64;
    while !missing.is_empty() && j < max {
        let seed = crate::refmodel::keccak::keccak256(&[b"enrverif-edkeys".as_ref(), &j.to_be_bytes()].concat());
        j += 1;
        let pk = crate::refmodel::crypto::ed_pk_from_seed(&seed);
        let hit: Vec<usize> = missing.iter().copied().filter(|i| (ED_SHAPES[*i].1)(&pk)).collect();
        for i in &hit {
            out.push(EdKeyRec { shape: ED_SHAPES[*i].0.into(), seed, pk: pk.to_vec() });
        }
        missing.retain(|i| !hit.contains(i));
    }
    out
}

pub fn edkeys() -> &'static [EdKeyRec] {
    static C: std::sync::OnceLock<Vec<EdKeyRec>> = std::sync::OnceLock::new();
    C.get_or_init(|| {
        let v: Vec<EdKeyRec> = serde_json::from_str(include_str!("../../corpus/edkeys.json")).expect("corpus/edkeys.json");
        for r in &v {
            assert_eq!(crate::refmodel::crypto::ed_pk_from_seed(&r.seed).to_vec(), r.pk, "corpus/edkeys.json: seed/pk mismatch");
        }
        v
    })
}
