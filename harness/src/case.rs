//! Serialisable cases: what generators produce, what oracles consume, what replay files hold.
use crate::keys::FamId;
use crate::refmodel::rlp::Item;
use serde::{Deserialize, Serialize};
use std::net::{IpAddr, SocketAddr};

/// A typed value handed to `insert` / `Builder::add_value` (anything `Encodable`).
#[derive(Clone, Debug, PartialEq, Eq, Hash, Serialize, Deserialize)]
pub enum TVal {
    Bytes(#[serde(with = "crate::hexser")] Vec<u8>),
    U8(u8),
    U16(u16),
    U64(u64),
    Str(String),
    StrList(Vec<String>),
    BytesList(#[serde(with = "crate::hexser::vecvec")] Vec<Vec<u8>>),
    /// an arbitrary well-formed item through a user-defined `Encodable`
    Item(Item),
    /// a user-defined `Encodable` whose `encode` emits these bytes verbatim (possibly not one RLP item)
    Raw(#[serde(with = "crate::hexser")] Vec<u8>),
    /// the value handed over is itself a record (`Enr<k256>` decoded from a fixed committed record), or a
    /// `Vec` of two copies of it: the library's own `Encodable` impl runs inside the call
    Record { list: bool },
}

/// bytes of the fixed record used by `TVal::Record`
#[cfg(feature = "builtin")]
pub fn example_record_bytes() -> &'static [u8] {
    &crate::sigshapes::corpus().iter().find(|r| !r.ed).expect("corpus holds a secp256k1 record").bytes
}
#[cfg(not(feature = "builtin"))]
pub fn example_record_bytes() -> &'static [u8] {
    static B: std::sync::OnceLock<Vec<u8>> = std::sync::OnceLock::new();
    B.get_or_init(|| alloy_rlp::encode(crate::exec::example_record()))
}

impl TVal {
    /// canonical reference encoding of the value
    pub fn ref_rlp(&self) -> Vec<u8> {
        use crate::refmodel::rlp::*;
        match self {
            TVal::Bytes(b) => encode_str(b),
            TVal::U8(v) => encode_uint(*v as u64),
            TVal::U16(v) => encode_uint(*v as u64),
            TVal::U64(v) => encode_uint(*v),
            TVal::Str(s) => encode_str(s.as_bytes()),
            TVal::StrList(l) => encode(&Item::List(l.iter().map(|s| Item::s(s.as_bytes())).collect())),
            TVal::BytesList(l) => encode(&Item::List(l.iter().map(|s| Item::s(s)).collect())),
            TVal::Item(i) => encode(i),
            TVal::Raw(b) => b.clone(),
            TVal::Record { list: false } => example_record_bytes().to_vec(),
            TVal::Record { list: true } => {
                let mut o = Vec::new();
                enc_list_payload(&mut o, &[example_record_bytes(), example_record_bytes()].concat());
                o
            }
        }
    }
}

#[derive(Clone, Copy, Debug, PartialEq, Eq, Hash, Serialize, Deserialize)]
pub enum PortKey {
    Tcp,
    Tcp6,
    Udp,
    Udp6,
}
impl PortKey {
    pub const ALL: [PortKey; 4] = [PortKey::Tcp, PortKey::Tcp6, PortKey::Udp, PortKey::Udp6];
    pub fn key(self) -> &'static [u8] {
        match self {
            PortKey::Tcp => b"tcp",
            PortKey::Tcp6 => b"tcp6",
            PortKey::Udp => b"udp",
            PortKey::Udp6 => b"udp6",
        }
    }
}

/// One public mutator call (or one of two identity transformations). `k` = index into the
/// history's key list of the key handed to the call.
#[derive(Clone, Debug, PartialEq, Eq, Hash, Serialize, Deserialize)]
pub enum Op {
    SetSeq { seq: u64, k: usize },
    Insert { #[serde(with = "crate::hexser")] key: Vec<u8>, val: TVal, k: usize },
    InsertRaw { #[serde(with = "crate::hexser")] key: Vec<u8>, #[serde(with = "crate::hexser")] raw: Vec<u8>, k: usize },
    SetIp { ip: IpAddr, k: usize },
    SetPort { which: PortKey, port: u16, k: usize },
    RemovePort { which: PortKey, k: usize },
    SetClientInfo { name: String, version: String, build: Option<String>, k: usize },
    SetSocket { tcp: bool, addr: SocketAddr, k: usize },
    RemoveSocket { tcp: bool, v6: bool, k: usize },
    RemoveKey { #[serde(with = "crate::hexser")] key: Vec<u8>, k: usize },
    RemoveInsert {
        #[serde(with = "crate::hexser::vecvec")]
        remove: Vec<Vec<u8>>,
        #[serde(with = "crate::hexser::pairs")]
        insert: Vec<(Vec<u8>, Vec<u8>)>,
        k: usize,
    },
    /// `set_public_key(public key of keys[pk_of], keys[k])`
    SetPublicKey { pk_of: usize, k: usize },
    /// replace the record by decode(encode(record))
    Redecode,
    /// replace the record by its clone
    CloneSwap,
    /// replace the record by from_str(to_base64(record)), with or without the `enr:` prefix
    Reparse { prefix: bool },
    /// replace the record by the one serde_json reads back from its JSON form
    Reserde,
    /// replace the record by `other.clone_from(&record)`, where `other` is an unrelated record built
    /// with the last key of the history's key list (another key, other content, other seq)
    CloneFrom,
}

impl Op {
    pub fn signer(&self) -> Option<usize> {
        match self {
            Op::SetSeq { k, .. }
            | Op::Insert { k, .. }
            | Op::InsertRaw { k, .. }
            | Op::SetIp { k, .. }
            | Op::SetPort { k, .. }
            | Op::RemovePort { k, .. }
            | Op::SetClientInfo { k, .. }
            | Op::SetSocket { k, .. }
            | Op::RemoveSocket { k, .. }
            | Op::RemoveKey { k, .. }
            | Op::RemoveInsert { k, .. }
            | Op::SetPublicKey { k, .. } => Some(*k),
            Op::Redecode | Op::CloneSwap | Op::Reparse { .. } | Op::Reserde | Op::CloneFrom => None,
        }
    }
    /// name of the public function called
    pub fn name(&self) -> &'static str {
        match self {
            Op::SetSeq { .. } => "set_seq",
            Op::Insert { .. } => "insert",
            Op::InsertRaw { .. } => "insert_raw_rlp",
            Op::SetIp { .. } => "set_ip",
            Op::SetPort { which, .. } => match which {
                PortKey::Tcp => "set_tcp4",
                PortKey::Tcp6 => "set_tcp6",
                PortKey::Udp => "set_udp4",
                PortKey::Udp6 => "set_udp6",
            },
            Op::RemovePort { which, .. } => match which {
                PortKey::Tcp => "remove_tcp",
                PortKey::Tcp6 => "remove_tcp6",
                PortKey::Udp => "remove_udp4",
                PortKey::Udp6 => "remove_udp6",
            },
            Op::SetClientInfo { .. } => "set_client_info",
            Op::SetSocket { tcp: true, .. } => "set_tcp_socket",
            Op::SetSocket { tcp: false, .. } => "set_udp_socket",
            Op::RemoveSocket { tcp, v6, .. } => match (tcp, v6) {
                (true, false) => "remove_tcp_socket",
                (true, true) => "remove_tcp6_socket",
                (false, false) => "remove_udp_socket",
                (false, true) => "remove_udp6_socket",
            },
            Op::RemoveKey { .. } => "remove_key",
            Op::RemoveInsert { .. } => "remove_insert",
            Op::SetPublicKey { .. } => "set_public_key",
            Op::Redecode => "redecode",
            Op::CloneSwap => "clone",
            Op::Reparse { .. } => "reparse",
            Op::Reserde => "reserde",
            Op::CloneFrom => "clone_from",
        }
    }
    pub fn is_mutator(&self) -> bool {
        !matches!(self, Op::Redecode | Op::CloneSwap | Op::Reparse { .. } | Op::Reserde | Op::CloneFrom)
    }
}

pub const MUTATOR_NAMES: [&str; 22] = [
    "set_seq",
    "insert",
    "insert_raw_rlp",
    "set_ip",
    "set_udp4",
    "remove_udp4",
    "set_udp6",
    "remove_udp6",
    "set_tcp4",
    "remove_tcp",
    "set_tcp6",
    "remove_tcp6",
    "set_client_info",
    "set_udp_socket",
    "remove_udp_socket",
    "remove_udp6_socket",
    "set_tcp_socket",
    "remove_tcp_socket",
    "remove_tcp6_socket",
    "remove_key",
    "remove_insert",
    "set_public_key",
];

/// One `Builder` method call.
#[derive(Clone, Debug, PartialEq, Eq, Hash, Serialize, Deserialize)]
pub enum BCall {
    Seq(u64),
    AddValue { #[serde(with = "crate::hexser")] key: Vec<u8>, val: TVal },
    AddValueRlp { #[serde(with = "crate::hexser")] key: Vec<u8>, #[serde(with = "crate::hexser")] raw: Vec<u8> },
    Ip(IpAddr),
    Ip4(std::net::Ipv4Addr),
    Ip6(std::net::Ipv6Addr),
    Port { which: PortKey, port: u16 },
    ClientInfo { name: String, version: String, build: Option<String> },
}

#[derive(Clone, Debug, PartialEq, Eq, Hash, Serialize, Deserialize)]
pub enum Init {
    /// `Enr::builder()` + calls + `build(keys[0])`
    Builder { calls: Vec<BCall> },
    /// the same `Builder` value used twice: `build(keys[first])` (result dropped), then `build(keys[0])`
    BuilderReuse { calls: Vec<BCall>, first: usize },
    /// a record signed by the harness with keys[0] (public key and id are added by the harness),
    /// encoded by the reference encoder and handed to `decode`
    Decoded {
        seq: u64,
        #[serde(with = "crate::hexser::pairs")]
        pairs: Vec<(Vec<u8>, Vec<u8>)>,
    },
}

#[derive(Clone, Debug, PartialEq, Eq, Hash, Serialize, Deserialize)]
pub struct Secret(#[serde(with = "crate::hexser::arr32")] pub [u8; 32]);

#[derive(Clone, Debug, PartialEq, Eq, Hash, Serialize, Deserialize)]
pub struct History {
    pub fam: FamId,
    /// keys[0] signs the initial record; all keys are of the family's scheme
    pub keys: Vec<Secret>,
    pub init: Init,
    pub ops: Vec<Op>,
    /// fail the n-th (1-based) signing call
    pub fault_at: Option<usize>,
    /// CombinedKey only: indices of keys that use the *other* variant (cross-scheme signer).
    /// Outside C05's domain; used by C06/C03/C09, whose statements hold for every update call.
    #[serde(default)]
    pub alt_keys: Vec<usize>,
}

pub fn case_hash<T: std::hash::Hash>(t: &T) -> u64 {
    use std::hash::Hasher;
    // fixed-key hasher: deterministic across runs
    let mut h = std::collections::hash_map::DefaultHasher::new();
    t.hash(&mut h);
    h.finish()
}
