//! Key families under test, the fault-injecting wrapper, the variable-length custom scheme and
//! the secret pool.
use crate::refmodel::crypto;
use crate::refmodel::keccak::keccak256;
use crate::refmodel::record::{KeyType, Scheme};
#[cfg(feature = "builtin")]
use enr::CombinedKey;
use enr::{EnrKey, EnrPublicKey, SigningError};
use serde::{Deserialize, Serialize};
use std::cell::Cell;

/// Identifies a family + the scheme it signs with (CombinedKey has two).
#[derive(Clone, Copy, Debug, PartialEq, Eq, Hash, Serialize, Deserialize)]
pub enum FamId {
    K256,
    Libsecp,
    Ed,
    CombinedSecp,
    CombinedEd,
    Var,
    /// the custom scheme with long signatures (64 + up to ~258 padding bytes, fixed per key)
    Wide,
    /// a toy custom scheme with a 4-byte public key under the key "t" and 6-byte signatures:
    /// records of ~21 bytes, i.e. below the 56-byte threshold of the long list header
    Tiny,
    /// the toy scheme with message-dependent signature lengths of 50..=61 bytes (crosses the 55/56
    /// boundary of the RLP string header from one signature to the next)
    Mid,
    /// the toy scheme with a ONE-byte public key below 0x80 (its RLP encoding is the byte itself) and
    /// one-byte signatures (message-dependent value: both the self-encoding and the 0x81-prefixed form)
    Nano,
    /// the toy scheme with a 64-byte public key (long-form RLP string header) and 64-byte signatures
    Big,
    /// the toy scheme with a 5-byte public key and an EMPTY signature (records authenticated out of band, like
    /// go-ethereum's NullID test scheme): sign_v4 returns no bytes, verify_v4 accepts exactly the empty signature
    Null,
    /// the toy scheme (4-byte key, 6-byte signature) whose `enr_key()` COLLIDES with a reserved name: the
    /// public key is stored under `ip6`, where it is not a well-typed address.  Not in `ALL_FAMS`: used
    /// by C14 only (typed accessors / reachability flags against the raw content); such records are
    /// rejected by the decoder, which is outside every other property's domain
    Clash,
}
pub const BUILTIN_FAMS: [FamId; 5] = [FamId::K256, FamId::Libsecp, FamId::Ed, FamId::CombinedSecp, FamId::CombinedEd];
pub const ALL_FAMS: [FamId; 12] = [
    FamId::K256,
    FamId::Libsecp,
    FamId::Ed,
    FamId::CombinedSecp,
    FamId::CombinedEd,
    FamId::Var,
    FamId::Wide,
    FamId::Tiny,
    FamId::Mid,
    FamId::Nano,
    FamId::Big,
    FamId::Null,
];

impl FamId {
    /// the toy scheme (public key under "t")
    pub fn is_toy(self) -> bool {
        matches!(self, FamId::Tiny | FamId::Mid | FamId::Nano | FamId::Big | FamId::Clash | FamId::Null)
    }
    pub fn scheme(self) -> Scheme {
        match self {
            FamId::Ed | FamId::CombinedEd => Scheme::Ed,
            _ => Scheme::Secp,
        }
    }
    pub fn key_type(self) -> Option<KeyType> {
        match self {
            FamId::K256 => Some(KeyType::K256),
            FamId::Libsecp => Some(KeyType::Libsecp),
            FamId::Ed => Some(KeyType::Ed),
            FamId::CombinedSecp | FamId::CombinedEd => Some(KeyType::Combined),
            FamId::Var | FamId::Wide | FamId::Tiny | FamId::Mid | FamId::Nano | FamId::Big | FamId::Clash | FamId::Null => None,
        }
    }
    /// name of the public-key entry this family stores
    pub fn key_name(self) -> &'static [u8] {
        match self {
            FamId::Clash => b"ip6",
            f if f.is_toy() => b"t",
            f => f.scheme().key_name(),
        }
    }
    pub fn name(self) -> &'static str {
        match self {
            FamId::K256 => "k256",
            FamId::Libsecp => "libsecp",
            FamId::Ed => "ed25519",
            FamId::CombinedSecp => "combined-secp",
            FamId::CombinedEd => "combined-ed",
            FamId::Var => "varkey",
            FamId::Wide => "widekey",
            FamId::Tiny => "tinykey",
            FamId::Mid => "midkey",
            FamId::Nano => "nanokey",
            FamId::Big => "bigkey",
            FamId::Clash => "clashkey",
            FamId::Null => "nullsig",
        }
    }
    /// length of signatures of this family, None = variable
    pub fn fixed_sig_len(self) -> Option<usize> {
        match self {
            FamId::Var | FamId::Wide | FamId::Mid => None,
            FamId::Tiny | FamId::Clash => Some(6),
            FamId::Nano => Some(1),
            FamId::Null => Some(0),
            _ => Some(64),
        }
    }
    /// is `secret` usable as a secret of this family's scheme
    pub fn secret_ok(self, s: &[u8; 32]) -> bool {
        if self.is_toy() {
            return true;
        }
        match self.scheme() {
            Scheme::Secp => crypto::secp_secret_valid(s),
            Scheme::Ed => true,
        }
    }
    /// reference-derived public key bytes (as stored in the record)
    pub fn ref_pk(self, s: &[u8; 32]) -> Vec<u8> {
        if self.is_toy() {
            return toy_pk(self, s);
        }
        match self.scheme() {
            Scheme::Secp => crypto::secp_pk_from_secret(s).expect("valid secret").to_vec(),
            Scheme::Ed => crypto::ed_pk_from_seed(s).to_vec(),
        }
    }
}

/// A family usable with `Enr<K>`.
pub trait Fam: EnrKey + Sized + 'static {
    fn make(id: FamId, secret: &[u8; 32]) -> Self;
    fn pk_bytes(pk: &Self::PublicKey) -> Vec<u8> {
        pk.encode().as_ref().to_vec()
    }
    fn pk_uncompressed(pk: &Self::PublicKey) -> Vec<u8> {
        pk.encode_uncompressed().as_ref().to_vec()
    }
}

/// the library's built-in key types; in the minimal configuration (enr without k256 / ed25519) they do not
/// exist and are replaced by a placeholder that is never run (the engine maps such cases to custom families)
#[cfg(feature = "builtin")]
pub type K256Key = k256::ecdsa::SigningKey;
#[cfg(feature = "builtin")]
pub type EdKey = ed25519_dalek::SigningKey;
#[cfg(feature = "builtin")]
pub type CombKey = enr::CombinedKey;
#[cfg(not(feature = "builtin"))]
pub type K256Key = NoBuiltin;
#[cfg(not(feature = "builtin"))]
pub type EdKey = NoBuiltin;
#[cfg(not(feature = "builtin"))]
pub type CombKey = NoBuiltin;

/// key type of the fixed record behind `TVal::Record`
#[cfg(feature = "builtin")]
pub type ExampleKey = k256::ecdsa::SigningKey;
#[cfg(not(feature = "builtin"))]
pub type ExampleKey = TinyKey;

#[cfg(not(feature = "builtin"))]
pub struct NoBuiltin;
#[cfg(not(feature = "builtin"))]
impl EnrKey for NoBuiltin {
    type PublicKey = TinyPub;
    fn sign_v4(&self, _: &[u8]) -> Result<Vec<u8>, SigningError> {
        Err(SigningError::verif_new("key type not built"))
    }
    fn public(&self) -> TinyPub {
        TinyPub(vec![0, 0, 0, 0], false)
    }
    fn enr_to_public(_: &std::collections::BTreeMap<Vec<u8>, bytes::Bytes>) -> Result<TinyPub, alloy_rlp::Error> {
        Err(alloy_rlp::Error::Custom("key type not built"))
    }
}
#[cfg(not(feature = "builtin"))]
impl Fam for NoBuiltin {
    fn make(_: FamId, _: &[u8; 32]) -> Self {
        NoBuiltin
    }
}

#[cfg(feature = "builtin")]
impl Fam for k256::ecdsa::SigningKey {
    fn make(_: FamId, s: &[u8; 32]) -> Self {
        k256::ecdsa::SigningKey::from_slice(s).expect("valid secret")
    }
}
/// the key type behind `KeyType::Libsecp` / `FamId::Libsecp`
#[cfg(feature = "libsecp")]
pub type LibsecpKey = secp256k1::SecretKey;
#[cfg(not(feature = "libsecp"))]
pub type LibsecpKey = K256Key;
/// name of the library build configuration this binary checks
pub const BUILD_CONFIG: &str = match (cfg!(feature = "builtin"), cfg!(feature = "libsecp"), !cfg!(feature = "plainprofile")) {
    (true, true, true) => "main: all features, overflow checks and debug assertions on, log level Trace",
    (true, true, false) => "plain-all: release profile (no debug assertions / overflow checks), all features, no logger",
    (true, false, false) => "plain: release profile (no debug assertions / overflow checks), without rust-secp256k1, no logger",
    (true, false, true) => "k256-dbg: enr without rust-secp256k1, overflow checks and debug assertions on, log level Trace",
    (false, _, _) => "minimal: enr with features [serde, verif] only (no built-in key type), custom key types alone; assertions on",
};
/// short tag of the configuration (file names)
pub const BUILD_TAG: &str = match (cfg!(feature = "builtin"), cfg!(feature = "libsecp"), !cfg!(feature = "plainprofile")) {
    (true, true, true) => "main",
    (true, true, false) => "plain-all",
    (true, false, false) => "plain",
    (true, false, true) => "k256-dbg",
    (false, _, _) => "minimal",
};

#[cfg(feature = "libsecp")]
impl Fam for secp256k1::SecretKey {
    fn make(_: FamId, s: &[u8; 32]) -> Self {
        secp256k1::SecretKey::from_slice(s).expect("valid secret")
    }
}
#[cfg(feature = "builtin")]
impl Fam for ed25519_dalek::SigningKey {
    fn make(_: FamId, s: &[u8; 32]) -> Self {
        ed25519_dalek::SigningKey::from_bytes(s)
    }
}
#[cfg(feature = "builtin")]
impl Fam for CombinedKey {
    fn make(id: FamId, s: &[u8; 32]) -> Self {
        match id {
            FamId::CombinedEd => CombinedKey::Ed25519(ed25519_dalek::SigningKey::from_bytes(s)),
            _ => CombinedKey::Secp256k1(k256::ecdsa::SigningKey::from_slice(s).expect("valid secret")),
        }
    }
}

// ---------------------------------------------------------------------------------------------
// Fault injection: wraps a real key; the n-th signing call of the current thread fails.

thread_local! {
    static SIGN_CALLS: Cell<usize> = const { Cell::new(0) };
    static FAIL_AT: Cell<usize> = const { Cell::new(0) }; // 0 = never; n = n-th call (1-based) fails
}
pub fn fault_reset(fail_at: Option<usize>) {
    SIGN_CALLS.with(|c| c.set(0));
    FAIL_AT.with(|c| c.set(fail_at.unwrap_or(0)));
}
/// Run `f` with fault injection and call counting suspended (harness-internal signing that is not part
/// of the history under test).
pub fn fault_suspended<T>(f: impl FnOnce() -> T) -> T {
    let (n, at) = (SIGN_CALLS.with(|c| c.get()), FAIL_AT.with(|c| c.get()));
    FAIL_AT.with(|c| c.set(0));
    let r = f();
    SIGN_CALLS.with(|c| c.set(n));
    FAIL_AT.with(|c| c.set(at));
    r
}
pub fn fault_sign_calls() -> usize {
    SIGN_CALLS.with(|c| c.get())
}

pub struct FaultKey<K: Fam>(pub K);

impl<K: Fam> EnrKey for FaultKey<K> {
    type PublicKey = K::PublicKey;
    fn sign_v4(&self, msg: &[u8]) -> Result<Vec<u8>, SigningError> {
        let n = SIGN_CALLS.with(|c| {
            c.set(c.get() + 1);
            c.get()
        });
        if FAIL_AT.with(|c| c.get()) == n {
            return Err(SigningError::verif_new("injected signing fault"));
        }
        self.0.sign_v4(msg)
    }
    fn public(&self) -> Self::PublicKey {
        self.0.public()
    }
    fn enr_to_public(
        content: &std::collections::BTreeMap<Vec<u8>, bytes::Bytes>,
    ) -> Result<Self::PublicKey, alloy_rlp::Error> {
        K::enr_to_public(content)
    }
}
impl<K: Fam> Fam for FaultKey<K> {
    fn make(id: FamId, s: &[u8; 32]) -> Self {
        FaultKey(K::make(id, s))
    }
    fn pk_bytes(pk: &Self::PublicKey) -> Vec<u8> {
        K::pk_bytes(pk)
    }
    fn pk_uncompressed(pk: &Self::PublicKey) -> Vec<u8> {
        K::pk_uncompressed(pk)
    }
}

// ---------------------------------------------------------------------------------------------
// VarKey: a legitimate custom scheme with variable-length signatures.  Signature = 64-byte
// low-S ECDSA (libsecp256k1, deterministic) over keccak256(msg), followed by p padding bytes,
// p = h[0] % 7 and every padding byte = h[1], h = keccak256(msg).  Verification checks both.
// The public key is a compressed secp256k1 key stored under "secp256k1".

pub struct VarKey(pub secp256k1::SecretKey, pub usize);

/// extra padding units (7 bytes each) a key of family `id` with this secret appends
pub fn var_units(id: FamId, secret: &[u8; 32]) -> usize {
    match id {
        FamId::Wide => (secret[31] % 37) as usize,
        _ => 0,
    }
}

#[derive(Clone, Debug)]
pub struct VarPub(pub secp256k1::PublicKey);

/// padding: every byte = h[1]; length = h[0] % 7 + 7 * units (h = keccak256(msg)); the verifier accepts
/// any length with the right residue mod 7 (the number of units is the signer's choice)
pub fn var_pad(msg: &[u8], units: usize) -> Vec<u8> {
    let h = keccak256(msg);
    vec![h[1]; (h[0] % 7) as usize + 7 * units]
}

pub fn var_sign(secret: &[u8; 32], msg: &[u8], units: usize) -> Vec<u8> {
    let mut sig = crypto::secp_sign(secret, msg).to_vec();
    sig.extend_from_slice(&var_pad(msg, units));
    sig
}

pub fn var_verify(pk33: &[u8], msg: &[u8], sig: &[u8]) -> crypto::Verdict {
    if sig.len() < 64 || sig.len() > 64 + 6 + 7 * 40 {
        return crypto::Verdict::Invalid;
    }
    let h = keccak256(msg);
    let pad = &sig[64..];
    if pad.len() % 7 != (h[0] % 7) as usize || pad.iter().any(|b| *b != h[1]) {
        return crypto::Verdict::Invalid;
    }
    crypto::secp_verify(pk33, msg, &sig[..64])
}

impl EnrKey for VarKey {
    type PublicKey = VarPub;
    fn sign_v4(&self, msg: &[u8]) -> Result<Vec<u8>, SigningError> {
        Ok(var_sign(&self.0.secret_bytes(), msg, self.1))
    }
    fn public(&self) -> VarPub {
        VarPub(secp256k1::PublicKey::from_secret_key(secp256k1::SECP256K1, &self.0))
    }
    fn enr_to_public(
        content: &std::collections::BTreeMap<Vec<u8>, bytes::Bytes>,
    ) -> Result<VarPub, alloy_rlp::Error> {
        let raw = content
            .get(&b"secp256k1"[..])
            .ok_or(alloy_rlp::Error::Custom("no key"))?;
        let it = crate::refmodel::rlp::decode_exact(raw).map_err(|_| alloy_rlp::Error::Custom("bad rlp"))?;
        let b = it.as_str().ok_or(alloy_rlp::Error::Custom("not a string"))?;
        if b.len() != 33 {
            return Err(alloy_rlp::Error::Custom("bad key length"));
        }
        secp256k1::PublicKey::from_slice(b)
            .map(VarPub)
            .map_err(|_| alloy_rlp::Error::Custom("bad key"))
    }
}
impl EnrPublicKey for VarPub {
    type Raw = [u8; 33];
    type RawUncompressed = [u8; 64];
    fn verify_v4(&self, msg: &[u8], sig: &[u8]) -> bool {
        var_verify(&self.0.serialize(), msg, sig) == crypto::Verdict::Valid
    }
    fn encode(&self) -> [u8; 33] {
        self.0.serialize()
    }
    fn encode_uncompressed(&self) -> [u8; 64] {
        let mut o = [0u8; 64];
        o.copy_from_slice(&self.0.serialize_uncompressed()[1..]);
        o
    }
    fn enr_key(&self) -> Vec<u8> {
        b"secp256k1".to_vec()
    }
}
impl Fam for VarKey {
    fn make(id: FamId, s: &[u8; 32]) -> Self {
        VarKey(secp256k1::SecretKey::from_slice(s).expect("valid secret"), var_units(id, s))
    }
}

// ---------------------------------------------------------------------------------------------
// TinyKey: toy custom scheme (no security claim): public key = keccak256("tiny-pk" || secret)[..4]
// stored under "t"; signature = keccak256("tiny-sig" || pk || msg)[..6].  Legitimate as an EnrKey
// implementation; its records are ~21 bytes long.

pub struct TinyKey(pub [u8; 32], pub FamId);

/// signature length of the `Mid` variant for this message: 50..=61
pub fn mid_len(msg: &[u8]) -> usize {
    50 + (keccak256(&[b"mid-len".as_ref(), msg].concat())[0] % 12) as usize
}
/// public key bytes as stored under "t": 4 bytes (Tiny, Mid), 1 byte below 0x80 (Nano), 64 bytes (Big)
#[derive(Clone, Debug)]
pub struct TinyPub(pub Vec<u8>, pub bool /* stored under `ip6` (family Clash) */);

pub fn tiny_pk(secret: &[u8; 32]) -> [u8; 4] {
    let h = keccak256(&[b"tiny-pk".as_ref(), secret].concat());
    [h[0], h[1], h[2], h[3]]
}
pub fn toy_pk(fam: FamId, secret: &[u8; 32]) -> Vec<u8> {
    let h = keccak256(&[b"tiny-pk".as_ref(), secret].concat());
    match fam {
        FamId::Nano => vec![h[0] & 0x7f],
        FamId::Null => h[..5].to_vec(),
        FamId::Big => {
            // 64, 65, 66, 96 or 130 bytes, chosen by the secret (a BLS-sized key is 96 bytes)
            let len = [64usize, 65, 66, 96, 130][(secret[30] % 5) as usize];
            let mut v = h.to_vec();
            while v.len() < len {
                let n = keccak256(&v);
                v.extend_from_slice(&n);
            }
            v.truncate(len);
            v
        }
        _ => h[..4].to_vec(),
    }
}
pub fn tiny_sign(pk: &[u8], msg: &[u8]) -> Vec<u8> {
    tiny_sign_len(pk, msg, 6)
}
pub fn tiny_sign_len(pk: &[u8], msg: &[u8], len: usize) -> Vec<u8> {
    let mut out = Vec::new();
    let mut ctr = 0u8;
    while out.len() < len {
        out.extend_from_slice(&keccak256(&[b"tiny-sig".as_ref(), pk, msg, &[ctr]].concat()));
        ctr += 1;
    }
    if len == 6 {
        // the 6-byte form keeps its original definition
        return keccak256(&[b"tiny-sig".as_ref(), pk, msg].concat())[..6].to_vec();
    }
    out.truncate(len);
    out
}
/// signature of the toy scheme for family `fam`
pub fn toy_sign(fam: FamId, pk: &[u8], msg: &[u8]) -> Vec<u8> {
    match fam {
        FamId::Mid => tiny_sign_len(pk, msg, mid_len(msg)),
        FamId::Nano => tiny_sign_len(pk, msg, 1),
        FamId::Null => vec![],
        FamId::Big => tiny_sign_len(pk, msg, 64),
        _ => tiny_sign(pk, msg),
    }
}
/// the public key's length selects the variant: 4 bytes -> Tiny or Mid, 1 -> Nano, 64 -> Big
pub fn tiny_verify(pk: &[u8], msg: &[u8], sig: &[u8]) -> crypto::Verdict {
    let ok = match pk.len() {
        4 => sig == tiny_sign(pk, msg).as_slice() || (sig.len() == mid_len(msg) && sig == tiny_sign_len(pk, msg, sig.len()).as_slice()),
        1 => pk[0] < 0x80 && sig == tiny_sign_len(pk, msg, 1).as_slice(),
        5 => sig.is_empty(),
        64..=130 => sig == tiny_sign_len(pk, msg, 64).as_slice(),
        _ => false,
    };
    if ok {
        crypto::Verdict::Valid
    } else {
        crypto::Verdict::Invalid
    }
}
impl EnrKey for TinyKey {
    type PublicKey = TinyPub;
    fn sign_v4(&self, msg: &[u8]) -> Result<Vec<u8>, SigningError> {
        Ok(toy_sign(self.1, &toy_pk(self.1, &self.0), msg))
    }
    fn public(&self) -> TinyPub {
        TinyPub(toy_pk(self.1, &self.0), self.1 == FamId::Clash)
    }
    fn enr_to_public(
        content: &std::collections::BTreeMap<Vec<u8>, bytes::Bytes>,
    ) -> Result<TinyPub, alloy_rlp::Error> {
        let (raw, clash) = match content.get(&b"t"[..]) {
            Some(r) => (r, false),
            None => (content.get(&b"ip6"[..]).ok_or(alloy_rlp::Error::Custom("no key"))?, true),
        };
        let it = crate::refmodel::rlp::decode_exact(raw).map_err(|_| alloy_rlp::Error::Custom("bad rlp"))?;
        let b = it.as_str().ok_or(alloy_rlp::Error::Custom("not a string"))?;
        if !(b.len() == 4 || b.len() == 5 || (64..=130).contains(&b.len()) || (b.len() == 1 && b[0] < 0x80)) {
            return Err(alloy_rlp::Error::Custom("bad key length"));
        }
        Ok(TinyPub(b.to_vec(), clash))
    }
}
impl EnrPublicKey for TinyPub {
    type Raw = Vec<u8>;
    type RawUncompressed = Vec<u8>;
    fn verify_v4(&self, msg: &[u8], sig: &[u8]) -> bool {
        tiny_verify(&self.0, msg, sig) == crypto::Verdict::Valid
    }
    fn encode(&self) -> Vec<u8> {
        self.0.clone()
    }
    fn encode_uncompressed(&self) -> Vec<u8> {
        self.0.clone()
    }
    fn enr_key(&self) -> Vec<u8> {
        if self.1 {
            b"ip6".to_vec()
        } else {
            b"t".to_vec()
        }
    }
}
impl Fam for TinyKey {
    fn make(id: FamId, s: &[u8; 32]) -> Self {
        TinyKey(*s, id)
    }
}

/// Harness-side signature for a record of family `id` (independent signer).
/// `alt` selects k256-direct instead of libsecp for secp schemes.
pub fn ref_sign(id: FamId, secret: &[u8; 32], content: &[u8], alt: bool) -> Vec<u8> {
    match id {
        FamId::Var | FamId::Wide => var_sign(secret, content, var_units(id, secret)),
        f if f.is_toy() => toy_sign(f, &toy_pk(f, secret), content),
        _ => match id.scheme() {
            Scheme::Secp => {
                if alt {
                    crypto::secp_sign_k256(secret, content).to_vec()
                } else {
                    crypto::secp_sign(secret, content).to_vec()
                }
            }
            Scheme::Ed => crypto::ed_sign(secret, content).to_vec(),
        },
    }
}

// ---------------------------------------------------------------------------------------------
// Secret pool

pub struct Pool {
    pub secp: Vec<[u8; 32]>,
    pub ed: Vec<[u8; 32]>,
    /// indices into `secp` of keys with a leading-zero x or y coordinate
    pub secp_edge_coord: Vec<usize>,
}

fn scalar(v: u8) -> [u8; 32] {
    let mut a = [0u8; 32];
    a[31] = v;
    a
}

impl Pool {
    pub fn build() -> Pool {
        let mut secp: Vec<[u8; 32]> = vec![
            scalar(1),
            scalar(2),
            scalar(3),
            crypto::sub32_small(&crypto::N, 1),
            crypto::sub32_small(&crypto::N, 2),
            crypto::HALF_N, // (n-1)/2
        ];
        let mut hi = [0u8; 32];
        hi[0] = 0x80;
        secp.push(hi);
        let mut pat = [0x55u8; 32];
        pat[0] = 0x55;
        secp.push(pat);
        // the EIP-778 example key
        secp.push(
            crate::hexser::unhex("b71c71a67e1177ad4e901695e1b4b9ee17ae16c6668d313eac2f96dbcda3f291")
                .unwrap()
                .try_into()
                .unwrap(),
        );
        let mut secp_edge_coord = Vec::new();
        // deterministic pseudo-random secrets; mine for leading-zero coordinates
        let mut found_x0 = 0;
        let mut found_y0 = 0;
        let mut plain = 0;
        let mut ctr = 0u32;
        // leading coordinate bytes that collide with SEC1 tags or other magic values
        let mut want_x: Vec<u8> = vec![0x02, 0x03, 0x04, 0x05, 0x06, 0x07, 0xff, 0x80];
        let mut want_y: Vec<u8> = vec![0x04, 0x02];
        while (found_x0 < 2 || found_y0 < 2 || plain < 12 || !want_x.is_empty() || !want_y.is_empty()) && ctr < 12000 {
            let s = keccak256(&[b"enrverif-pool".as_ref(), &ctr.to_be_bytes()].concat());
            ctr += 1;
            if !crypto::secp_secret_valid(&s) {
                continue;
            }
            let pk = crypto::secp_pk_from_secret(&s).unwrap();
            let u = crypto::secp_uncompressed(&pk).unwrap();
            if let Some(i) = want_x.iter().position(|b| *b == u[0]) {
                want_x.remove(i);
                secp_edge_coord.push(secp.len());
                secp.push(s);
            } else if let Some(i) = want_y.iter().position(|b| *b == u[32]) {
                want_y.remove(i);
                secp_edge_coord.push(secp.len());
                secp.push(s);
            } else if u[0] == 0 && found_x0 < 2 {
                found_x0 += 1;
                secp_edge_coord.push(secp.len());
                secp.push(s);
            } else if u[32] == 0 && found_y0 < 2 {
                found_y0 += 1;
                secp_edge_coord.push(secp.len());
                secp.push(s);
            } else if plain < 12 {
                plain += 1;
                secp.push(s);
            }
        }
        let mut ed: Vec<[u8; 32]> = vec![[0u8; 32], [0xffu8; 32], scalar(1)];
        for i in 0..12u32 {
            ed.push(keccak256(&[b"enrverif-pool-ed".as_ref(), &i.to_be_bytes()].concat()));
        }
        let mut want_e: Vec<u8> = vec![0x00, 0x04, 0x01, 0xff];
        let mut j = 100u32;
        while !want_e.is_empty() && j < 4000 {
            let s = keccak256(&[b"enrverif-pool-ed".as_ref(), &j.to_be_bytes()].concat());
            j += 1;
            let pk = crypto::ed_pk_from_seed(&s);
            if let Some(i) = want_e.iter().position(|b| *b == pk[0]) {
                want_e.remove(i);
                ed.push(s);
            }
        }
        // seeds whose public key has a rare byte shape (committed corpus)
        for r in crate::sigshapes::edkeys() {
            if !ed.contains(&r.seed) {
                ed.push(r.seed);
            }
        }
        Pool { secp, ed, secp_edge_coord }
    }
    pub fn of(&self, s: Scheme) -> &Vec<[u8; 32]> {
        match s {
            Scheme::Secp => &self.secp,
            Scheme::Ed => &self.ed,
        }
    }
}

pub fn pool() -> &'static Pool {
    static P: std::sync::OnceLock<Pool> = std::sync::OnceLock::new();
    P.get_or_init(Pool::build)
}
