//! Runner: replay tier, known findings, enumerated cases, seeded random search with shrinking
//! (proptest `TestRunner` over entropy bytes), evidence, exit codes.
use crate::case::case_hash;
use crate::cases::Case;
use crate::choices::{splitmix64, Choices};
use proptest::test_runner::{Config, RngAlgorithm, TestCaseError, TestError, TestRng, TestRunner};
use serde_json::{json, Value};
use std::collections::{BTreeMap, HashSet};
use std::path::{Path, PathBuf};
use std::sync::atomic::{AtomicBool, AtomicU64, Ordering};
use std::sync::Mutex;
use std::time::Instant;

#[derive(Default)]
pub struct Stats {
    pub evaluations: u64,
    pub nontrivial: HashSet<u64>,
    pub labels: BTreeMap<String, u64>,
    pub samples: Vec<Value>,
    pub sample_keys: HashSet<String>,
    pub excluded_unspecified: u64,
    pub excluded_known: BTreeMap<String, u64>,
    /// oracle evaluations inside cases (steps, decodes, ...)
    pub oracle_evals: u64,
    frozen: bool,
}

impl Stats {
    pub fn label(&mut self, l: &str) {
        if !self.frozen {
            *self.labels.entry(l.to_string()).or_insert(0) += 1;
        }
    }
    pub fn label_n(&mut self, l: &str, n: u64) {
        if !self.frozen {
            *self.labels.entry(l.to_string()).or_insert(0) += n;
        }
    }
    pub fn nontrivial<T: std::hash::Hash>(&mut self, t: &T) {
        if !self.frozen {
            self.nontrivial.insert(case_hash(t));
        }
    }
    pub fn unspecified(&mut self) {
        if !self.frozen {
            self.excluded_unspecified += 1;
        }
    }
    pub fn known(&mut self, sig: &str) {
        if !self.frozen {
            *self.excluded_known.entry(sig.to_string()).or_insert(0) += 1;
        }
    }
    pub fn evals(&mut self, n: u64) {
        if !self.frozen {
            self.oracle_evals += n;
        }
    }
    /// keep one sample per class key (bounded)
    pub fn sample(&mut self, class: &str, v: impl FnOnce() -> Value) {
        if self.frozen || self.samples.len() >= 8 || self.sample_keys.contains(class) {
            return;
        }
        self.sample_keys.insert(class.to_string());
        self.samples.push(json!({"class": class, "case": v()}));
    }
    fn merge(&mut self, o: Stats) {
        self.evaluations += o.evaluations;
        self.oracle_evals += o.oracle_evals;
        self.nontrivial.extend(o.nontrivial);
        for (k, v) in o.labels {
            *self.labels.entry(k).or_insert(0) += v;
        }
        for (k, v) in o.excluded_known {
            *self.excluded_known.entry(k).or_insert(0) += v;
        }
        self.excluded_unspecified += o.excluded_unspecified;
        for s in o.samples {
            let class = s["class"].as_str().unwrap_or("").to_string();
            if self.samples.len() < 10 && !self.sample_keys.contains(&class) {
                self.sample_keys.insert(class);
                self.samples.push(s);
            }
        }
    }
}

pub trait Property: Sync + Send {
    fn id(&self) -> &'static str;
    fn level(&self) -> &'static str {
        "exploration"
    }
    /// how cases are generated and what makes one non-trivial
    fn rule(&self) -> String;
    fn assumptions(&self) -> Vec<String>;
    /// maximum entropy length for a random case
    fn entropy_len(&self) -> usize {
        1024
    }
    fn random_cases(&self, quick: bool) -> u64;
    fn gen(&self, c: &mut Choices) -> Case;
    /// enumerated (non-random) cases of the tier
    fn enumerate(&self, _quick: bool) -> Box<dyn Iterator<Item = Case> + Send + '_> {
        Box::new(std::iter::empty())
    }
    /// the space `enumerate` covers is finite and covered completely
    fn exhaustive_part(&self, _quick: bool) -> Option<String> {
        None
    }
    /// evaluate the oracle on one case
    fn check(&self, case: &Case, st: &mut Stats) -> Result<(), String>;
    /// generator-health assertions over the merged statistics (Err = exit 2)
    fn health(&self, _st: &Stats, _quick: bool) -> Result<(), String> {
        Ok(())
    }
    /// coverage-guided campaigns of the thorough tier: (fuzz target, runs per job)
    fn fuzz_plans(&self) -> Vec<(&'static str, u64)> {
        vec![]
    }
}

pub struct RunCtx {
    pub verif_dir: PathBuf,
    pub seed: u64,
    pub threads: usize,
}

#[derive(serde::Deserialize, Debug, Clone)]
pub struct Finding {
    pub status: String,
    pub property: String,
    pub signature: String,
    pub description: String,
    #[serde(default)]
    pub commit: Option<String>,
    #[serde(default)]
    pub witness: Option<String>,
}

pub fn load_findings(dir: &Path) -> Vec<Finding> {
    let p = dir.join("known_findings.json");
    match std::fs::read_to_string(&p) {
        Ok(s) => {
            let v: Value = serde_json::from_str(&s).expect("known_findings.json parses");
            serde_json::from_value(v["findings"].clone()).expect("known_findings.json: findings")
        }
        Err(_) => vec![],
    }
}

static KNOWN: std::sync::OnceLock<Vec<String>> = std::sync::OnceLock::new();
/// signatures of `known` findings (classifiers consult this; `fixed` entries suppress nothing)
pub fn known_signatures() -> &'static Vec<String> {
    KNOWN.get().expect("known findings loaded")
}
pub fn is_known(sig: &str) -> bool {
    KNOWN.get().map(|k| k.iter().any(|s| s == sig)).unwrap_or(false)
}
pub fn set_known(v: Vec<String>) {
    let _ = KNOWN.set(v);
}

pub fn replay_doc(id: &str, case: &Case, msg: &str) -> Value {
    json!({"property": id, "message": msg, "case": case})
}

fn write_replay(ctx: &RunCtx, id: &str, case: &Case, msg: &str) -> PathBuf {
    let dir = ctx.verif_dir.join("replays");
    let _ = std::fs::create_dir_all(&dir);
    let p = dir.join(format!("{}-{:016x}.json", id, case_hash(case)));
    std::fs::write(&p, serde_json::to_string_pretty(&replay_doc(id, case, msg)).unwrap()).expect("write replay");
    p
}

pub fn load_case(path: &Path) -> Result<Case, String> {
    let s = std::fs::read_to_string(path).map_err(|e| format!("{path:?}: {e}"))?;
    let v: Value = serde_json::from_str(&s).map_err(|e| format!("{path:?}: {e}"))?;
    let c = if v.get("case").is_some() { v["case"].clone() } else { v };
    serde_json::from_value(c).map_err(|e| format!("{path:?}: {e}"))
}

// ---------------------------------------------------------------------------------------------
// watchdog: a case whose thread burns more than WATCH_CPU_S CPU-seconds is reported
// (C03: as a non-termination violation; every other property: exit 2, "cannot decide").

pub const WATCH_CPU_S: f64 = 20.0;
struct WatchEntry {
    thread: libc::pthread_t,
    cpu_start: f64,
    case: Case,
}
static WATCH: Mutex<Vec<Option<WatchEntry>>> = Mutex::new(Vec::new());
thread_local! {
    static WATCH_SLOT: std::cell::Cell<usize> = const { std::cell::Cell::new(usize::MAX) };
}

fn ts_to_f64(ts: libc::timespec) -> f64 {
    ts.tv_sec as f64 + ts.tv_nsec as f64 * 1e-9
}
fn own_cpu() -> f64 {
    let mut ts = libc::timespec { tv_sec: 0, tv_nsec: 0 };
    unsafe { libc::clock_gettime(libc::CLOCK_THREAD_CPUTIME_ID, &mut ts) };
    ts_to_f64(ts)
}
fn thread_cpu(t: libc::pthread_t) -> Option<f64> {
    let mut cid: libc::clockid_t = 0;
    if unsafe { libc::pthread_getcpuclockid(t, &mut cid) } != 0 {
        return None;
    }
    let mut ts = libc::timespec { tv_sec: 0, tv_nsec: 0 };
    if unsafe { libc::clock_gettime(cid, &mut ts) } != 0 {
        return None;
    }
    Some(ts_to_f64(ts))
}

fn watch_begin(case: &Case) {
    let slot = WATCH_SLOT.with(|s| s.get());
    let mut g = WATCH.lock().unwrap();
    let slot = if slot == usize::MAX {
        g.push(None);
        let n = g.len() - 1;
        WATCH_SLOT.with(|s| s.set(n));
        n
    } else {
        slot
    };
    g[slot] = Some(WatchEntry { thread: unsafe { libc::pthread_self() }, cpu_start: own_cpu(), case: case.clone() });
}
fn watch_end() {
    let slot = WATCH_SLOT.with(|s| s.get());
    if slot != usize::MAX {
        WATCH.lock().unwrap()[slot] = None;
    }
}

fn spawn_watchdog(id: &'static str, verif_dir: PathBuf) {
    std::thread::spawn(move || loop {
        std::thread::sleep(std::time::Duration::from_millis(1000));
        let g = WATCH.lock().unwrap();
        for e in g.iter().flatten() {
            if let Some(now) = thread_cpu(e.thread) {
                if now - e.cpu_start > WATCH_CPU_S {
                    let msg = format!("a call is still running after {WATCH_CPU_S} CPU-seconds of its thread (non-termination)");
                    let dir = verif_dir.join("replays");
                    let _ = std::fs::create_dir_all(&dir);
                    let p = dir.join(format!("{}-hang-{:016x}.json", id, case_hash(&e.case)));
                    let _ = std::fs::write(&p, serde_json::to_string_pretty(&replay_doc(id, &e.case, &msg)).unwrap());
                    if id == "C03" {
                        println!("violation detail: {msg}");
                        println!("VIOLATION property={} replay={}", id, p.display());
                        std::process::exit(1);
                    } else {
                        println!("INCONCLUSIVE property={id}: {msg}; case saved to {}", p.display());
                        std::process::exit(2);
                    }
                }
            }
        }
    });
}

fn check_guarded(p: &dyn Property, case: &Case, st: &mut Stats) -> Result<(), String> {
    // a panic of the *harness* (not of the library inside a guarded call) must not masquerade as a
    // verdict: it propagates and aborts the run (exit 101 -> treated as "cannot decide")
    #[cfg(not(feature = "builtin"))]
    let remapped;
    #[cfg(not(feature = "builtin"))]
    let case = {
        // minimal configuration: the built-in key types do not exist.  Histories of a built-in family are run
        // under a custom family instead (same secrets, same calls); byte / text / key-import cases, which are
        // about the built-in decoders, are out of this configuration's domain.
        match case {
            Case::Hist(h) if h.fam.key_type().is_some() => {
                let mut h2 = h.clone();
                h2.fam = match h.fam {
                    crate::keys::FamId::K256 => crate::keys::FamId::Tiny,
                    crate::keys::FamId::Libsecp => crate::keys::FamId::Mid,
                    crate::keys::FamId::Ed => crate::keys::FamId::Nano,
                    crate::keys::FamId::CombinedSecp => crate::keys::FamId::Big,
                    _ => crate::keys::FamId::Tiny,
                };
                h2.alt_keys.clear();
                remapped = Case::Hist(h2);
                &remapped
            }
            Case::Hist(_) | Case::NodeId(_) => case,
            _ => {
                st.unspecified();
                return Ok(());
            }
        }
    };
    watch_begin(case);
    let r = p.check(case, st);
    watch_end();
    r
}

/// Returns the process exit code.
pub fn run_property(p: &dyn Property, quick: bool, ctx: &RunCtx) -> i32 {
    let t0 = Instant::now();
    let id = p.id();
    crate::refmodel::self_check();
    crate::exec::install_panic_hook();
    crate::exec::install_logger();
    let findings = load_findings(&ctx.verif_dir);
    set_known(
        findings
            .iter()
            .filter(|f| f.status == "known")
            .map(|f| f.signature.clone())
            .collect(),
    );
    let mut total = Stats::default();
    let mut failure: Option<(Case, String)> = None;
    spawn_watchdog(id, ctx.verif_dir.clone());

    // 1. known findings of this property: replay the witness in strict mode
    for f in findings.iter().filter(|f| f.property == id && f.status == "known") {
        if let Some(w) = &f.witness {
            let path = ctx.verif_dir.join(w);
            match load_case(&path) {
                Ok(c) => {
                    let mut st = Stats::default();
                    let r = STRICT.with(|s| {
                        s.set(true);
                        let r = check_guarded(p, &c, &mut st);
                        s.set(false);
                        r
                    });
                    match r {
                        Err(_) if std::env::var("VERIF_AUX").is_ok() => {}
                        Err(m) => println!("KNOWN-FINDING: property={} {} [{}] ({})", id, f.description, f.signature, first_line(&m)),
                        Ok(()) if std::env::var("VERIF_AUX").is_ok() => {}
                        Ok(()) => println!("note: known finding {} no longer reproduces on this tree", f.signature),
                    }
                }
                Err(e) => {
                    eprintln!("cannot load witness: {e}");
                    return 2;
                }
            }
        } else {
            println!("KNOWN-FINDING: property={} {} [{}]", id, f.description, f.signature);
        }
    }

    // 2. regress tier
    let rdir = ctx.verif_dir.join("regress").join(id);
    let mut regress_n = 0u64;
    if let Ok(rd) = std::fs::read_dir(&rdir) {
        let mut files: Vec<PathBuf> = rd.filter_map(|e| e.ok().map(|e| e.path())).filter(|p| p.extension().map(|e| e == "json").unwrap_or(false)).collect();
        files.sort();
        for f in files {
            match load_case(&f) {
                Ok(c) => {
                    regress_n += 1;
                    total.evaluations += 1;
                    if let Err(m) = check_guarded(p, &c, &mut total) {
                        if failure.is_none() {
                            failure = Some((c, format!("regress case {}: {m}", f.display())));
                        }
                    }
                }
                Err(e) => {
                    eprintln!("cannot load regress case: {e}");
                    return 2;
                }
            }
        }
    }
    total.label_n("stage:regress", regress_n);

    let stop = AtomicBool::new(failure.is_some());
    let fail_slot: Mutex<Option<(Case, String)>> = Mutex::new(None);
    let merged: Mutex<Stats> = Mutex::new(Stats::default());

    // 3. enumerated cases
    if !stop.load(Ordering::SeqCst) {
        let it = Mutex::new(p.enumerate(quick));
        let n_enum = AtomicU64::new(0);
        std::thread::scope(|s| {
            for _ in 0..ctx.threads {
                s.spawn(|| {
                    let mut st = Stats::default();
                    loop {
                        if stop.load(Ordering::SeqCst) {
                            break;
                        }
                        let batch: Vec<Case> = {
                            let mut g = it.lock().unwrap();
                            let mut b = Vec::new();
                            for _ in 0..16 {
                                match g.next() {
                                    Some(c) => b.push(c),
                                    None => break,
                                }
                            }
                            b
                        };
                        if batch.is_empty() {
                            break;
                        }
                        for c in batch {
                            st.evaluations += 1;
                            n_enum.fetch_add(1, Ordering::Relaxed);
                            if let Err(m) = check_guarded(p, &c, &mut st) {
                                stop.store(true, Ordering::SeqCst);
                                let mut g = fail_slot.lock().unwrap();
                                if g.is_none() {
                                    *g = Some((c, m));
                                }
                                break;
                            }
                        }
                    }
                    merged.lock().unwrap().merge(st);
                });
            }
        });
        merged.lock().unwrap().label_n("stage:enumerated", n_enum.load(Ordering::Relaxed));
    }

    // 4. seeded random search with shrinking
    let n_random = p.random_cases(quick);
    if !stop.load(Ordering::SeqCst) && n_random > 0 {
        let per = (n_random + ctx.threads as u64 - 1) / ctx.threads as u64;
        let idh = case_hash(&id);
        std::thread::scope(|s| {
            for w in 0..ctx.threads {
                let stop = &stop;
                let fail_slot = &fail_slot;
                let merged = &merged;
                s.spawn(move || {
                    let wseed = splitmix64(ctx.seed ^ splitmix64(idh ^ (w as u64).wrapping_mul(0x9E37)));
                    let mut seed_bytes = [0u8; 32];
                    for i in 0..4 {
                        seed_bytes[i * 8..i * 8 + 8].copy_from_slice(&splitmix64(wseed.wrapping_add(i as u64)).to_le_bytes());
                    }
                    let cfg = Config {
                        cases: per as u32,
                        failure_persistence: None,
                        max_shrink_iters: 4000,
                        max_global_rejects: 1,
                        ..Config::default()
                    };
                    let mut runner = TestRunner::new_with_rng(cfg, TestRng::from_seed(RngAlgorithm::ChaCha, &seed_bytes));
                    let strat = proptest::collection::vec(proptest::num::u8::ANY, 0..=p.entropy_len());
                    let st = std::cell::RefCell::new(Stats::default());
                    let r = runner.run(&strat, |bytes| {
                        if stop.load(Ordering::SeqCst) && !st.borrow().frozen {
                            return Ok(());
                        }
                        let case = p.gen(&mut Choices::new(&bytes));
                        let mut stb = st.borrow_mut();
                        if !stb.frozen {
                            stb.evaluations += 1;
                        }
                        match check_guarded(p, &case, &mut stb) {
                            Ok(()) => Ok(()),
                            Err(m) => {
                                stb.frozen = true;
                                Err(TestCaseError::fail(m))
                            }
                        }
                    });
                    if let Err(TestError::Fail(reason, bytes)) = r {
                        stop.store(true, Ordering::SeqCst);
                        let case = p.gen(&mut Choices::new(&bytes));
                        // message of the *shrunk* case
                        let mut tmp = Stats::default();
                        tmp.frozen = true;
                        let msg = match check_guarded(p, &case, &mut tmp) {
                            Err(m) => m,
                            Ok(()) => reason.message().to_string(),
                        };
                        let mut g = fail_slot.lock().unwrap();
                        if g.is_none() {
                            *g = Some((case, msg));
                        }
                    } else if let Err(TestError::Abort(r)) = r {
                        eprintln!("proptest aborted: {r}");
                    }
                    let mut stt = st.into_inner();
                    stt.frozen = false;
                    merged.lock().unwrap().merge(stt);
                });
            }
        });
        merged.lock().unwrap().label_n("stage:random", n_random);
    }
    total.merge(merged.into_inner().unwrap());
    if failure.is_none() {
        failure = fail_slot.into_inner().unwrap();
    }

    // 5. coverage-guided fuzzing campaigns (thorough only)
    if failure.is_none() && !quick && std::env::var("VERIF_NO_FUZZ").is_err() {
        for (target, runs) in p.fuzz_plans() {
            if let Err(f) = crate::fuzzstage::campaign(p, target, runs, ctx, &mut total) {
                failure = Some(f);
                break;
            }
        }
    }

    let wall = t0.elapsed().as_secs_f64();
    let violations = if failure.is_some() { 1 } else { 0 };
    // evidence
    let mut samples = total.samples.clone();
    if samples.is_empty() {
        samples.push(json!({"class": "none", "case": null}));
    }
    let aux_mode = std::env::var("VERIF_AUX").map(|v| v == "1").unwrap_or(false);
    // the run of the second build configuration (see ./check): its summary is folded into the evidence
    // written by the main run that follows it
    let others: Vec<Value> = std::env::var("VERIF_AUX_FILES")
        .ok()
        .map(|l| l.split(':').filter_map(|f| std::fs::read_to_string(f).ok()).filter_map(|s| serde_json::from_str(&s).ok()).collect())
        .unwrap_or_default();
    if aux_mode && failure.is_none() {
        let summary = json!({
            "configuration": crate::keys::BUILD_CONFIG,
            "tier": "quick",
            "seed": ctx.seed,
            "evaluations": total.evaluations,
            "oracle_evaluations": total.oracle_evals,
            "distinct_nontrivial": total.nontrivial.len(),
            "excluded_unspecified": total.excluded_unspecified,
            "violations": 0,
            "wall_s": wall,
        });
        let rdir = ctx.verif_dir.join("replays");
        let _ = std::fs::create_dir_all(&rdir);
        std::fs::write(rdir.join(format!("aux-{id}-{}.json", crate::keys::BUILD_TAG)), serde_json::to_string_pretty(&summary).unwrap()).expect("write aux summary");
        if !cfg!(feature = "builtin") {
            // (the generator-health tables are written for the built-in families)
        } else if let Err(m) = p.health(&total, quick) {
            println!("INCONCLUSIVE property={id} configuration=\"{}\" generator health: {m}", crate::keys::BUILD_CONFIG);
            return 2;
        }
        println!(
            "ok(other configuration) property={} cases={} nontrivial={} wall={:.1}s [{}]",
            id,
            total.evaluations,
            total.nontrivial.len(),
            wall,
            crate::keys::BUILD_CONFIG
        );
        return 0;
    }
    let ev = json!({
        "property_id": id,
        "tier": if quick { "quick" } else { "thorough" },
        "seed": ctx.seed,
        "level": p.level(),
        "coverage": {
            "evaluations": total.evaluations,
            "oracle_evaluations": total.oracle_evals,
            "distinct_nontrivial": total.nontrivial.len(),
            "rule": p.rule(),
            "samples": samples,
            "labels": total.labels,
            "excluded_unspecified": total.excluded_unspecified,
            "excluded_known_findings": total.excluded_known,
            "exhaustive": false,
            "exhaustive_part": p.exhaustive_part(quick),
            "regress_cases": regress_n,
            "configuration": crate::keys::BUILD_CONFIG,
            "other_configurations": others,
        },
        "assumptions": p.assumptions(),
        "wall_s": wall,
        "violations": violations,
    });
    let edir = ctx.verif_dir.join("evidence");
    let _ = std::fs::create_dir_all(&edir);
    std::fs::write(edir.join(format!("{id}.json")), serde_json::to_string_pretty(&ev).unwrap()).expect("write evidence");

    if let Some((case, msg)) = failure {
        let path = write_replay(ctx, id, &case, &msg);
        println!("violation detail: {}", msg);
        println!("VIOLATION property={} replay={}", id, path.display());
        return 1;
    }
    if let Err(m) = p.health(&total, quick) {
        eprintln!("generator health check failed for {id}: {m}");
        println!("INCONCLUSIVE property={id} generator health: {m}");
        return 2;
    }
    println!(
        "OK property={} tier={} seed={} cases={} nontrivial={} oracle_evals={} wall={:.1}s",
        id,
        if quick { "quick" } else { "thorough" },
        ctx.seed,
        total.evaluations,
        total.nontrivial.len(),
        total.oracle_evals,
        wall
    );
    0
}

thread_local! {
    /// strict mode: known-finding classifiers are ignored (used to replay witnesses)
    pub static STRICT: std::cell::Cell<bool> = const { std::cell::Cell::new(false) };
}
pub fn strict() -> bool {
    STRICT.with(|s| s.get())
}

fn first_line(s: &str) -> &str {
    s.lines().next().unwrap_or("")
}

/// `--replay <file>`: run the oracle on a saved case directly (no generators, no proptest).
pub fn replay(p: &dyn Property, path: &Path, ctx: &RunCtx) -> i32 {
    crate::refmodel::self_check();
    crate::exec::install_panic_hook();
    crate::exec::install_logger();
    let findings = load_findings(&ctx.verif_dir);
    set_known(vec![]); // strict: nothing is excluded on replay
    let _ = findings;
    let case = match load_case(path) {
        Ok(c) => c,
        Err(e) => {
            eprintln!("{e}");
            return 2;
        }
    };
    let mut st = Stats::default();
    match p.check(&case, &mut st) {
        Ok(()) => {
            println!("replay: property {} holds on {}", p.id(), path.display());
            0
        }
        Err(m) => {
            println!("violation detail: {m}");
            println!("VIOLATION property={} replay={}", p.id(), path.display());
            1
        }
    }
}
