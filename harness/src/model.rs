//! Sorted-map reference model of the builder and of every update (C08, C09, C07).
//! Stated over the *observed* pre-state of each call.
use crate::case::*;
use crate::exec::{Ret, Snap, EK};
use crate::keys::{self, FamId};
use crate::refmodel::crypto;
use crate::refmodel::record::{self, Scheme};
use crate::refmodel::rlp::{self, Item};
use std::collections::{BTreeMap, BTreeSet};
use std::net::IpAddr;

pub type Pairs = BTreeMap<Vec<u8>, Vec<u8>>;

#[derive(Clone, Debug)]
pub struct Effect {
    pub pairs: Pairs,
    pub seq: u64,
    /// acceptable return values (any of)
    pub rets: Vec<Ret>,
    /// for remove_insert: acceptable values per position of the (removed, inserted) lists
    pub remins: Option<(Vec<Vec<Option<Vec<u8>>>>, Vec<Vec<Option<Vec<u8>>>>)>,
    pub size: usize,
}

#[derive(Clone, Debug)]
pub enum Expect {
    MustOk(Effect),
    MustErr(BTreeSet<EK>),
    /// the properties are silent: an error of one of these kinds, or success with this effect
    Either(BTreeSet<EK>, Effect),
}

pub const ALL_EK: [EK; 5] = [EK::Size, EK::SeqHigh, EK::Signing, EK::UnsupportedId, EK::InvalidRlp];

pub fn to_map(pairs: &[(Vec<u8>, Vec<u8>)]) -> Pairs {
    pairs.iter().cloned().collect()
}
pub fn to_vec(m: &Pairs) -> Vec<(Vec<u8>, Vec<u8>)> {
    m.iter().map(|(k, v)| (k.clone(), v.clone())).collect()
}

/// signature length the family produces for this content
pub fn sig_len(fam: FamId, units: usize, seq: u64, pairs: &Pairs) -> usize {
    match fam {
        FamId::Var | FamId::Wide => 64 + keys::var_pad(&record::content_from_fields(seq, &to_vec(pairs)), units).len(),
        FamId::Tiny => 6,
        FamId::Nano => 1,
        FamId::Null => 0,
        FamId::Mid => keys::mid_len(&record::content_from_fields(seq, &to_vec(pairs))),
        _ => 64,
    }
}

pub fn record_size(fam: FamId, units: usize, seq: u64, pairs: &Pairs) -> usize {
    let sl = sig_len(fam, units, seq, pairs);
    record::record_from_fields(&vec![0u8; sl], seq, &to_vec(pairs)).len()
}

/// `raw` is exactly one RLP item with strict framing at the top level
pub fn one_item(raw: &[u8]) -> Option<(bool, Vec<u8>)> {
    match rlp::header_at(raw) {
        Ok((l, h, p)) if h + p == raw.len() => Some((l, raw[h..].to_vec())),
        _ => None,
    }
}

fn inner_well_formed(raw: &[u8]) -> bool {
    rlp::decode_exact(raw).is_ok()
}

pub fn raw_as_u16(raw: &[u8]) -> Option<u16> {
    match one_item(raw) {
        Some((false, p)) => rlp::str_to_u16(&p),
        _ => None,
    }
}
pub fn raw_as_ip4(raw: &[u8]) -> Option<std::net::Ipv4Addr> {
    match one_item(raw) {
        Some((false, p)) if p.len() == 4 => Some(std::net::Ipv4Addr::new(p[0], p[1], p[2], p[3])),
        _ => None,
    }
}
pub fn raw_as_ip6(raw: &[u8]) -> Option<std::net::Ipv6Addr> {
    match one_item(raw) {
        Some((false, p)) if p.len() == 16 => {
            let mut a = [0u8; 16];
            a.copy_from_slice(&p);
            Some(std::net::Ipv6Addr::from(a))
        }
        _ => None,
    }
}

fn pk_valid(s: Scheme, b: &[u8]) -> bool {
    match s {
        Scheme::Secp => crypto::secp_pk_valid(b),
        Scheme::Ed => crypto::ed_pk_valid(b),
    }
}

fn other_scheme(s: Scheme) -> Scheme {
    match s {
        Scheme::Secp => Scheme::Ed,
        Scheme::Ed => Scheme::Secp,
    }
}

#[derive(Default)]
struct Causes {
    must: BTreeSet<EK>,
    /// the statement is silent about this argument: success or one of these errors
    open: BTreeSet<EK>,
    is_open: bool,
}
impl Causes {
    fn err(&mut self, k: EK) {
        self.must.insert(k);
    }
    fn open_all(&mut self) {
        self.is_open = true;
        self.open.extend(ALL_EK);
    }
    fn open_with(&mut self, k: EK) {
        self.is_open = true;
        self.open.insert(k);
    }
}

/// Validate one (key, raw value) insertion through a generic or typed entry point.
fn validate_value(fam: FamId, key: &[u8], raw: &[u8], c: &mut Causes) {
    let scheme = fam.scheme();
    let item = one_item(raw);
    let (is_list, payload) = match item {
        None => {
            // not exactly one RLP item: the record could not be re-encoded / re-decoded
            c.err(EK::InvalidRlp);
            if key == b"id" {
                c.must.insert(EK::UnsupportedId);
            }
            return;
        }
        Some(x) => x,
    };
    let payload_only: Vec<u8> = if is_list { vec![] } else { rlp::decode_exact(raw).ok().and_then(|i| i.as_str().map(|s| s.to_vec())).unwrap_or_default() };
    let _ = payload;
    match key {
        b"tcp" | b"tcp6" | b"udp" | b"udp6" => {
            if is_list || rlp::str_to_u16(&payload_only).is_none() {
                c.err(EK::InvalidRlp);
            }
        }
        b"id" => {
            if is_list {
                c.err(EK::InvalidRlp);
                c.must.insert(EK::UnsupportedId);
            } else if payload_only != b"v4" {
                c.err(EK::UnsupportedId);
            }
        }
        b"ip" => {
            if is_list || payload_only.len() != 4 {
                c.err(EK::InvalidRlp);
            }
        }
        b"ip6" => {
            if is_list || payload_only.len() != 16 {
                c.err(EK::InvalidRlp);
            }
        }
        b"secp256k1" | b"ed25519" => {
            let ks = if key == b"secp256k1" { Scheme::Secp } else { Scheme::Ed };
            if ks == scheme && fam.key_name() == key {
                // the signer's own entry: overwritten by the signer's key anyway
                if is_list || !pk_valid(ks, &payload_only) {
                    c.open_with(EK::InvalidRlp);
                }
            } else {
                let combined = matches!(fam, FamId::CombinedSecp | FamId::CombinedEd);
                if is_list || combined {
                    c.open_all();
                } else if ks == Scheme::Secp && !pk_valid(ks, &payload_only) {
                    // an ed25519 family storing junk under "secp256k1": typed by the crate only as a string
                    c.open_with(EK::InvalidRlp);
                } else if ks == Scheme::Ed && !pk_valid(ks, &payload_only) {
                    c.open_with(EK::InvalidRlp);
                }
            }
        }
        _ => {
            if is_list && !inner_well_formed(raw) {
                // inner bytes of a list value under an unknown key: left open
                c.open_with(EK::InvalidRlp);
            }
        }
    }
}

pub struct Ctx<'a> {
    pub fam: FamId,
    pub signer_pk: &'a [u8],
    /// the next signing call is scheduled to fail
    pub fault_pending: bool,
    /// custom scheme: padding units of the signer's key
    pub units: usize,
}

thread_local! {
    static LAST_SIZE: std::cell::Cell<usize> = const { std::cell::Cell::new(0) };
}
/// model result size (new pairs, new seq, new signature) computed by the last `expect_*` call
pub fn last_model_size() -> usize {
    LAST_SIZE.with(|c| c.get())
}

fn finish(cx: &Ctx, mut pairs: Pairs, new_seq: Option<u64>, pre_seq: u64, mut c: Causes, rets: Vec<Ret>) -> Expect {
    pairs.insert(cx.fam.key_name().to_vec(), rlp::encode_str(cx.signer_pk));
    match pairs.get(&b"id"[..]) {
        None => c.err(EK::UnsupportedId),
        Some(v) => {
            if *v != rlp::encode_str(b"v4") {
                c.err(EK::UnsupportedId);
                if !matches!(one_item(v), Some((false, _))) {
                    c.must.insert(EK::InvalidRlp);
                }
            }
        }
    }
    let seq = match new_seq {
        Some(n) => n,
        None => {
            if pre_seq == u64::MAX {
                c.err(EK::SeqHigh);
                pre_seq
            } else {
                pre_seq + 1
            }
        }
    };
    // CombinedKey signing with ed25519 while a valid secp256k1 entry is present: the record would be
    // verified against the secp256k1 entry; no listed property says what the update must do
    if cx.fam == FamId::CombinedEd {
        if let Some(v) = pairs.get(&b"secp256k1"[..]) {
            if let Some((false, _)) = one_item(v) {
                let p = rlp::decode_exact(v).ok().and_then(|i| i.as_str().map(|s| s.to_vec())).unwrap_or_default();
                if crypto::secp_pk_valid(&p) || p.len() == 65 {
                    c.open_all();
                }
            }
        }
    }
    let size = record_size(cx.fam, cx.units, seq, &pairs);
    LAST_SIZE.with(|c| c.set(size));
    if size > 300 {
        c.err(EK::Size);
    } else if (cx.fam == FamId::Var && size + 6 > 300) || (cx.fam == FamId::Mid && size + 12 > 300) || (cx.fam == FamId::Nano && size + 1 > 300) || cx.fam == FamId::Wide {
        // variable-length signatures: exact refusal is only claimed for 64-byte signatures (C09);
        // a size check made before re-signing may see a longer previous signature
        c.open_with(EK::Size);
    }
    if cx.fault_pending {
        if c.must.is_empty() {
            c.err(EK::Signing);
        } else {
            c.must.insert(EK::Signing);
        }
    }
    let eff = Effect { pairs, seq, rets, remins: None, size };
    if !c.must.is_empty() {
        let mut s = c.must;
        s.extend(c.open);
        Expect::MustErr(s)
    } else if c.is_open {
        Expect::Either(c.open, eff)
    } else {
        Expect::MustOk(eff)
    }
}

fn prev_port(pre: &Pairs, key: &[u8]) -> Option<u16> {
    pre.get(key).and_then(|r| raw_as_u16(r))
}

/// Expectation for one mutator call on the observed pre-state.
pub fn expect_op(cx: &Ctx, pre: &Snap, op: &Op, key_pks: &[Vec<u8>]) -> Expect {
    let p0 = to_map(&pre.pairs);
    let mut p = p0.clone();
    let mut c = Causes::default();
    let kn = cx.fam.key_name().to_vec();
    match op {
        Op::SetSeq { seq, .. } => finish(cx, p, Some(*seq), pre.seq, c, vec![Ret::Unit]),
        Op::Insert { key, val, .. } => {
            let raw = val.ref_rlp();
            validate_value(cx.fam, key, &raw, &mut c);
            let prev = p.insert(key.clone(), raw);
            finish(cx, p, None, pre.seq, c, vec![Ret::PrevRaw(prev)])
        }
        Op::InsertRaw { key, raw, .. } => {
            validate_value(cx.fam, key, raw, &mut c);
            let prev = p.insert(key.clone(), raw.clone());
            finish(cx, p, None, pre.seq, c, vec![Ret::PrevRaw(prev)])
        }
        Op::SetIp { ip, .. } => {
            let (key, raw, prev): (&[u8], Vec<u8>, Option<IpAddr>) = match ip {
                IpAddr::V4(a) => (b"ip", rlp::encode_str(&a.octets()), p.get(&b"ip"[..]).and_then(|r| raw_as_ip4(r)).map(IpAddr::V4)),
                IpAddr::V6(a) => (b"ip6", rlp::encode_str(&a.octets()), p.get(&b"ip6"[..]).and_then(|r| raw_as_ip6(r)).map(IpAddr::V6)),
            };
            p.insert(key.to_vec(), raw);
            finish(cx, p, None, pre.seq, c, vec![Ret::PrevIp(prev)])
        }
        Op::SetPort { which, port, .. } => {
            let prev = prev_port(&p, which.key());
            p.insert(which.key().to_vec(), rlp::encode_uint(*port as u64));
            finish(cx, p, None, pre.seq, c, vec![Ret::PrevPort(prev)])
        }
        Op::RemovePort { which, .. } => {
            p.remove(which.key());
            finish(cx, p, None, pre.seq, c, vec![Ret::Unit])
        }
        Op::SetClientInfo { name, version, build, .. } => {
            let mut l = vec![Item::s(name.as_bytes()), Item::s(version.as_bytes())];
            if let Some(b) = build {
                l.push(Item::s(b.as_bytes()));
            }
            p.insert(b"client".to_vec(), rlp::encode(&Item::List(l)));
            finish(cx, p, None, pre.seq, c, vec![Ret::Unit])
        }
        Op::SetSocket { tcp, addr, .. } => {
            match addr.ip() {
                IpAddr::V4(a) => {
                    p.insert(b"ip".to_vec(), rlp::encode_str(&a.octets()));
                    p.insert(if *tcp { b"tcp".to_vec() } else { b"udp".to_vec() }, rlp::encode_uint(addr.port() as u64));
                }
                IpAddr::V6(a) => {
                    p.insert(b"ip6".to_vec(), rlp::encode_str(&a.octets()));
                    p.insert(if *tcp { b"tcp6".to_vec() } else { b"udp6".to_vec() }, rlp::encode_uint(addr.port() as u64));
                }
            }
            finish(cx, p, None, pre.seq, c, vec![Ret::Unit])
        }
        Op::RemoveSocket { tcp, v6, .. } => {
            let (a, b): (&[u8], &[u8]) = match (tcp, v6) {
                (true, false) => (b"ip", b"tcp"),
                (true, true) => (b"ip6", b"tcp6"),
                (false, false) => (b"ip", b"udp"),
                (false, true) => (b"ip6", b"udp6"),
            };
            p.remove(a);
            p.remove(b);
            finish(cx, p, None, pre.seq, c, vec![Ret::Unit])
        }
        Op::RemoveKey { key, .. } => {
            p.remove(key);
            finish(cx, p, None, pre.seq, c, vec![Ret::Unit])
        }
        Op::RemoveInsert { remove, insert, .. } => {
            let mut removed_seq = Vec::new();
            let mut removed_pre = Vec::new();
            for k in remove {
                removed_pre.push(p0.get(k).cloned());
                removed_seq.push(p.remove(k));
            }
            let signer_raw = rlp::encode_str(cx.signer_pk);
            p.insert(kn.clone(), signer_raw.clone());
            let mut ins_seq = Vec::new();
            let mut ins_pre = Vec::new();
            let mut ins_kn = false;
            for (k, v) in insert {
                let raw = rlp::encode_str(v);
                validate_value(cx.fam, k, &raw, &mut c);
                ins_pre.push(p0.get(k).cloned());
                if *k == kn {
                    ins_kn = true;
                }
                ins_seq.push(p.insert(k.clone(), raw));
            }
            // acceptable returns per position: sequential semantics, or the pre-state value for keys
            // touched more than once; for the signer's own entry any of none / old / signer's value
            let mut rem_alts = Vec::new();
            for i in 0..remove.len() {
                rem_alts.push(vec![removed_seq[i].clone(), removed_pre[i].clone()]);
            }
            let mut ins_alts = Vec::new();
            for (i, (k, _)) in insert.iter().enumerate() {
                let mut a = vec![ins_seq[i].clone(), ins_pre[i].clone()];
                if *k == kn {
                    a.push(None);
                    a.push(Some(signer_raw.clone()));
                    a.push(p0.get(&kn).cloned());
                }
                if remove.iter().any(|r| r == k) {
                    a.push(None);
                }
                ins_alts.push(a);
            }
            let _ = ins_kn;
            let mut e = finish(cx, p, None, pre.seq, c, vec![]);
            match &mut e {
                Expect::MustOk(eff) | Expect::Either(_, eff) => eff.remins = Some((rem_alts, ins_alts)),
                _ => {}
            }
            return e;
        }
        Op::SetPublicKey { pk_of, k } => {
            let pk = &key_pks[*pk_of];
            let prev = p.insert(kn.clone(), rlp::encode_str(pk));
            let _ = prev;
            if pk_of != k && pk.as_slice() != cx.signer_pk {
                c.open_all();
            }
            finish(cx, p, None, pre.seq, c, vec![Ret::Unit])
        }
        Op::Redecode | Op::CloneSwap | Op::Reparse { .. } | Op::Reserde | Op::CloneFrom => Expect::MustOk(Effect { pairs: p0, seq: pre.seq, rets: vec![Ret::Unit], remins: None, size: pre.enc.len() }),
    }
}

/// Expectation for `Builder` calls + `build(signer)`.
pub fn expect_build(cx: &Ctx, calls: &[BCall]) -> Expect {
    let mut p: Pairs = BTreeMap::new();
    let mut seq = 1u64;
    let kn = cx.fam.key_name().to_vec();
    for call in calls {
        match call {
            BCall::Seq(s) => seq = *s,
            BCall::AddValue { key, val } => {
                p.insert(key.clone(), val.ref_rlp());
            }
            BCall::AddValueRlp { key, raw } => {
                p.insert(key.clone(), raw.clone());
            }
            BCall::Ip(IpAddr::V4(a)) | BCall::Ip4(a) => {
                p.insert(b"ip".to_vec(), rlp::encode_str(&a.octets()));
            }
            BCall::Ip(IpAddr::V6(a)) | BCall::Ip6(a) => {
                p.insert(b"ip6".to_vec(), rlp::encode_str(&a.octets()));
            }
            BCall::Port { which, port } => {
                p.insert(which.key().to_vec(), rlp::encode_uint(*port as u64));
            }
            BCall::ClientInfo { name, version, build } => {
                let mut l = vec![Item::s(name.as_bytes()), Item::s(version.as_bytes())];
                if let Some(b) = build {
                    l.push(Item::s(b.as_bytes()));
                }
                p.insert(b"client".to_vec(), rlp::encode(&Item::List(l)));
            }
        }
    }
    let mut c = Causes::default();
    for (k, v) in &p {
        if k.as_slice() == b"id" || *k == kn {
            // overridden by the builder; a malformed user value may or may not be refused first
            let mut tmp = Causes::default();
            validate_value(cx.fam, k, v, &mut tmp);
            if !tmp.must.is_empty() || tmp.is_open {
                c.open_with(EK::InvalidRlp);
                c.open_with(EK::UnsupportedId);
            }
        } else {
            validate_value(cx.fam, k, v, &mut c);
        }
    }
    p.insert(b"id".to_vec(), rlp::encode_str(b"v4"));
    // size rule of the builder: > 300 refused, 293..=300 may be refused, <= 292 not refused for size
    let mut probe = p.clone();
    probe.insert(kn.clone(), rlp::encode_str(cx.signer_pk));
    let size = record_size(cx.fam, cx.units, seq, &probe);
    if (293..=300).contains(&size) {
        c.open_with(EK::Size);
    }
    let e = finish(cx, p, Some(seq), seq, c, vec![Ret::Unit]);
    // the builder reports an unsupported scheme / signer failure as SigningError too
    match e {
        Expect::MustErr(mut s) => {
            if s.contains(&EK::Signing) || s.contains(&EK::UnsupportedId) {
                s.insert(EK::Signing);
            }
            Expect::MustErr(s)
        }
        o => o,
    }
}

impl Effect {
    pub fn ret_ok(&self, ret: &Ret) -> bool {
        match (&self.remins, ret) {
            (Some((ra, ia)), Ret::RemIns(r, i)) => {
                r.len() == ra.len()
                    && i.len() == ia.len()
                    && r.iter().zip(ra).all(|(v, alts)| alts.contains(v))
                    && i.iter().zip(ia).all(|(v, alts)| alts.contains(v))
            }
            (Some(_), _) => false,
            (None, r) => self.rets.iter().any(|x| x == r),
        }
    }
}
