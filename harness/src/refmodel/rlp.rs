//! Reference RLP: hand-written encoder and strict decoder, sharing nothing with alloy-rlp.
use serde::{Deserialize, Serialize};

#[derive(Clone, Debug, PartialEq, Eq, Hash, Serialize, Deserialize)]
pub enum Item {
    Str(#[serde(with = "crate::hexser")] Vec<u8>),
    List(Vec<Item>),
}

impl Item {
    pub fn s(b: &[u8]) -> Item {
        Item::Str(b.to_vec())
    }
    pub fn uint(v: u64) -> Item {
        Item::Str(be_min(v))
    }
    pub fn is_list(&self) -> bool {
        matches!(self, Item::List(_))
    }
    pub fn as_str(&self) -> Option<&[u8]> {
        match self {
            Item::Str(b) => Some(b),
            _ => None,
        }
    }
}

/// big-endian without leading zeros; 0 -> empty
pub fn be_min(v: u64) -> Vec<u8> {
    let b = v.to_be_bytes();
    let skip = b.iter().take_while(|x| **x == 0).count();
    b[skip..].to_vec()
}

fn header(out: &mut Vec<u8>, len: usize, base_short: u8, base_long: u8) {
    if len < 56 {
        out.push(base_short + len as u8);
    } else {
        let lb = be_min(len as u64);
        out.push(base_long + lb.len() as u8);
        out.extend_from_slice(&lb);
    }
}

pub fn enc_str(out: &mut Vec<u8>, b: &[u8]) {
    if b.len() == 1 && b[0] < 0x80 {
        out.push(b[0]);
    } else {
        header(out, b.len(), 0x80, 0xb7);
        out.extend_from_slice(b);
    }
}

pub fn enc_list_payload(out: &mut Vec<u8>, payload: &[u8]) {
    header(out, payload.len(), 0xc0, 0xf7);
    out.extend_from_slice(payload);
}

pub fn enc_item(out: &mut Vec<u8>, it: &Item) {
    match it {
        Item::Str(b) => enc_str(out, b),
        Item::List(v) => {
            let mut p = Vec::new();
            for i in v {
                enc_item(&mut p, i);
            }
            enc_list_payload(out, &p);
        }
    }
}

pub fn encode(it: &Item) -> Vec<u8> {
    let mut o = Vec::new();
    enc_item(&mut o, it);
    o
}

pub fn encode_str(b: &[u8]) -> Vec<u8> {
    let mut o = Vec::new();
    enc_str(&mut o, b);
    o
}

pub fn encode_uint(v: u64) -> Vec<u8> {
    encode_str(&be_min(v))
}

/// Non-canonical framings of a byte string (for mutations).
#[derive(Clone, Copy, Debug, PartialEq, Eq, Hash, Serialize, Deserialize)]
pub enum BadFrame {
    /// 0x81 b for b < 0x80 (only applies to 1-byte payloads < 0x80)
    SingleByteLong,
    /// long form (0xb8 len) for a payload shorter than 56
    LongFormShort,
    /// long form with a leading zero length byte (0xb9 00 len)
    LeadingZeroLen,
}

pub fn enc_str_bad(out: &mut Vec<u8>, b: &[u8], how: BadFrame) {
    match how {
        BadFrame::SingleByteLong => {
            out.push(0x80 + b.len() as u8);
            out.extend_from_slice(b);
        }
        BadFrame::LongFormShort => {
            out.push(0xb8);
            out.push(b.len() as u8);
            out.extend_from_slice(b);
        }
        BadFrame::LeadingZeroLen => {
            out.push(0xb9);
            out.push(0);
            out.push(b.len() as u8);
            out.extend_from_slice(b);
        }
    }
}

pub fn enc_list_bad(out: &mut Vec<u8>, payload: &[u8], how: BadFrame) {
    match how {
        BadFrame::SingleByteLong | BadFrame::LongFormShort => {
            out.push(0xf8);
            out.push(payload.len() as u8);
        }
        BadFrame::LeadingZeroLen => {
            out.push(0xf9);
            out.push(0);
            out.push(payload.len() as u8);
        }
    }
    out.extend_from_slice(payload);
}

#[derive(Clone, Debug, PartialEq, Eq)]
pub enum RlpErr {
    Empty,
    Truncated,
    NonCanonicalSingle,
    NonCanonicalLen,
    LenOverflow,
}

/// Header of one item at the start of `buf`: (is_list, header_len, payload_len); strict.
pub fn header_at(buf: &[u8]) -> Result<(bool, usize, usize), RlpErr> {
    let b0 = *buf.first().ok_or(RlpErr::Empty)?;
    let (list, hl, pl) = match b0 {
        0x00..=0x7f => return Ok((false, 0, 1)),
        0x80..=0xb7 => (false, 1, (b0 - 0x80) as usize),
        0xb8..=0xbf => {
            let n = (b0 - 0xb7) as usize;
            let l = long_len(buf, n)?;
            (false, 1 + n, l)
        }
        0xc0..=0xf7 => (true, 1, (b0 - 0xc0) as usize),
        0xf8..=0xff => {
            let n = (b0 - 0xf7) as usize;
            let l = long_len(buf, n)?;
            (true, 1 + n, l)
        }
    };
    if buf.len() < hl || buf.len() - hl < pl {
        return Err(RlpErr::Truncated);
    }
    if !list && pl == 1 && hl == 1 && buf[1] < 0x80 {
        return Err(RlpErr::NonCanonicalSingle);
    }
    Ok((list, hl, pl))
}

fn long_len(buf: &[u8], n: usize) -> Result<usize, RlpErr> {
    if buf.len() < 1 + n {
        return Err(RlpErr::Truncated);
    }
    let lb = &buf[1..1 + n];
    if lb[0] == 0 {
        return Err(RlpErr::NonCanonicalLen);
    }
    if n > 8 {
        return Err(RlpErr::LenOverflow);
    }
    let mut l: u64 = 0;
    for b in lb {
        l = (l << 8) | *b as u64;
    }
    if l < 56 {
        return Err(RlpErr::NonCanonicalLen);
    }
    if l > (usize::MAX / 2) as u64 {
        return Err(RlpErr::LenOverflow);
    }
    Ok(l as usize)
}

/// Strictly decode one item at the start of `buf`; returns the item and the bytes consumed.
pub fn decode_item(buf: &[u8]) -> Result<(Item, usize), RlpErr> {
    let (list, hl, pl) = header_at(buf)?;
    let payload = &buf[hl..hl + pl];
    if !list {
        return Ok((Item::Str(payload.to_vec()), hl + pl));
    }
    let mut items = Vec::new();
    let mut off = 0;
    while off < payload.len() {
        let (it, n) = decode_item(&payload[off..])?;
        items.push(it);
        off += n;
    }
    Ok((Item::List(items), hl + pl))
}

/// Decode `buf` as exactly one item.
pub fn decode_exact(buf: &[u8]) -> Result<Item, RlpErr> {
    let (it, n) = decode_item(buf)?;
    if n != buf.len() {
        return Err(RlpErr::Truncated);
    }
    Ok(it)
}

/// canonical u64: string of <= 8 bytes without leading zero
pub fn str_to_u64(b: &[u8]) -> Option<u64> {
    if b.len() > 8 || (!b.is_empty() && b[0] == 0) {
        return None;
    }
    let mut v = 0u64;
    for x in b {
        v = (v << 8) | *x as u64;
    }
    Some(v)
}

pub fn str_to_u16(b: &[u8]) -> Option<u16> {
    if b.len() > 2 {
        return None;
    }
    str_to_u64(b).map(|v| v as u16)
}

#[cfg(test)]
mod tests {
    use super::*;
    #[test]
    fn roundtrip_basic() {
        let it = Item::List(vec![
            Item::s(b""),
            Item::s(&[0x7f]),
            Item::s(&[0x80]),
            Item::s(&[1u8; 55]),
            Item::s(&[1u8; 56]),
            Item::List(vec![Item::List(vec![]), Item::uint(0), Item::uint(256)]),
        ]);
        let e = encode(&it);
        assert_eq!(decode_exact(&e).unwrap(), it);
        assert_eq!(encode(&Item::s(b"dog")), b"\x83dog");
        assert_eq!(encode_uint(0), [0x80]);
        assert_eq!(encode_uint(1024), [0x82, 4, 0]);
        assert!(decode_exact(&[0x81, 0x05]).is_err());
        assert!(decode_exact(&[0xb8, 0x01, 0x05]).is_err());
        assert!(decode_exact(&[0xb9, 0x00, 0x38]).is_err());
    }
}

/// Top-level elements of a list item (framing checked one level deep only): (is_list, raw, payload)
pub fn list_elems(buf: &[u8]) -> Option<Vec<(bool, Vec<u8>, Vec<u8>)>> {
    let (l, hl, pl) = header_at(buf).ok()?;
    if !l {
        return None;
    }
    let p = &buf[hl..hl + pl];
    let mut out = Vec::new();
    let mut off = 0;
    while off < p.len() {
        let (il, h, n) = header_at(&p[off..]).ok()?;
        out.push((il, p[off..off + h + n].to_vec(), p[off + h..off + h + n].to_vec()));
        off += h + n;
    }
    Some(out)
}
