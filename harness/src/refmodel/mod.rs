pub mod b64;
pub mod crypto;
pub mod keccak;
pub mod record;
pub mod rlp;

pub fn self_check() {
    keccak::self_check();
    crypto::self_check();
}
