//! Strict unpadded URL-safe base64 (RFC 4648 §5), hand-written.
const ALPHA: &[u8; 64] = b"ABCDEFGHIJKLMNOPQRSTUVWXYZabcdefghijklmnopqrstuvwxyz0123456789-_";

pub fn encode(data: &[u8]) -> String {
    let mut out = String::with_capacity(data.len() * 4 / 3 + 3);
    for c in data.chunks(3) {
        let n = match c.len() {
            3 => (c[0] as u32) << 16 | (c[1] as u32) << 8 | c[2] as u32,
            2 => (c[0] as u32) << 16 | (c[1] as u32) << 8,
            _ => (c[0] as u32) << 16,
        };
        out.push(ALPHA[(n >> 18) as usize & 63] as char);
        out.push(ALPHA[(n >> 12) as usize & 63] as char);
        if c.len() > 1 {
            out.push(ALPHA[(n >> 6) as usize & 63] as char);
        }
        if c.len() > 2 {
            out.push(ALPHA[n as usize & 63] as char);
        }
    }
    out
}

fn val(c: u8) -> Option<u32> {
    match c {
        b'A'..=b'Z' => Some((c - b'A') as u32),
        b'a'..=b'z' => Some((c - b'a') as u32 + 26),
        b'0'..=b'9' => Some((c - b'0') as u32 + 52),
        b'-' => Some(62),
        b'_' => Some(63),
        _ => None,
    }
}

/// Strict: only the URL-safe alphabet, no padding, no whitespace, length mod 4 != 1,
/// unused trailing bits must be zero.
pub fn decode(s: &str) -> Option<Vec<u8>> {
    let b = s.as_bytes();
    if b.len() % 4 == 1 {
        return None;
    }
    let mut out = Vec::with_capacity(b.len() * 3 / 4);
    for c in b.chunks(4) {
        let mut n = 0u32;
        for (i, ch) in c.iter().enumerate() {
            n |= val(*ch)? << (18 - 6 * i as u32);
        }
        match c.len() {
            4 => out.extend_from_slice(&[(n >> 16) as u8, (n >> 8) as u8, n as u8]),
            3 => {
                if n & 0xff != 0 {
                    return None;
                }
                out.extend_from_slice(&[(n >> 16) as u8, (n >> 8) as u8]);
            }
            2 => {
                if n & 0xffff != 0 {
                    return None;
                }
                out.push((n >> 16) as u8);
            }
            _ => return None,
        }
    }
    Some(out)
}

#[cfg(test)]
mod tests {
    use super::*;
    #[test]
    fn vectors() {
        assert_eq!(encode(b""), "");
        assert_eq!(encode(b"f"), "Zg");
        assert_eq!(encode(b"fo"), "Zm8");
        assert_eq!(encode(b"foo"), "Zm9v");
        assert_eq!(encode(&[0xfb, 0xff]), "-_8");
        assert_eq!(decode("Zm8").unwrap(), b"fo");
        assert!(decode("Zm9").is_none());
        assert!(decode("Zg==").is_none());
        assert!(decode("Z").is_none());
        assert!(decode("Zm 9v").is_none());
    }
}
