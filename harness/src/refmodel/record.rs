//! Reference record decoder: the rule list of C02, written from the statement.
use super::crypto::{self, Verdict};
use super::keccak::keccak256;
use super::rlp::{self, header_at};
use serde::{Deserialize, Serialize};

#[derive(Clone, Copy, Debug, PartialEq, Eq, Hash, Serialize, Deserialize)]
pub enum KeyType {
    K256,
    Libsecp,
    Ed,
    Combined,
}
pub const ALL_KEY_TYPES: [KeyType; 4] = [KeyType::K256, KeyType::Libsecp, KeyType::Ed, KeyType::Combined];

/// The four key types in one of their 24 orders, chosen by `seed` (a hash of the case): state leaking
/// from a decode under one type into the next decode under another type depends on the order they are tried in.
pub fn key_types_in_order(seed: u64) -> [KeyType; 4] {
    let mut v = ALL_KEY_TYPES.to_vec();
    let mut out = [KeyType::K256; 4];
    let mut s = (seed % 24) as usize;
    for (i, n) in [4usize, 3, 2, 1].into_iter().enumerate() {
        out[i] = v.remove(s % n);
        s /= n;
    }
    out
}

#[derive(Clone, Copy, Debug, PartialEq, Eq, Hash, Serialize, Deserialize)]
pub enum Scheme {
    Secp,
    Ed,
}
impl Scheme {
    pub fn key_name(self) -> &'static [u8] {
        match self {
            Scheme::Secp => b"secp256k1",
            Scheme::Ed => b"ed25519",
        }
    }
}

#[derive(Clone, Debug, PartialEq, Eq)]
pub struct RefRecord {
    pub sig: Vec<u8>,
    pub seq: u64,
    /// (key, raw RLP of the value) in input order (= sorted order)
    pub pairs: Vec<(Vec<u8>, Vec<u8>)>,
    pub scheme: Scheme,
    pub pk: Vec<u8>,
    pub node_id: [u8; 32],
    pub consumed: usize,
}

#[derive(Clone, Copy, Debug, PartialEq, Eq, Hash)]
pub enum Rej {
    Framing,
    NotList,
    TooLarge,
    NoSignature,
    SigNotString,
    NoSeq,
    SeqNotCanonical,
    KeyNotString,
    MissingValue,
    Unsorted,
    IdMissing,
    IdBad,
    IpBad,
    Ip6Bad,
    PortBad,
    PkMissing,
    PkBad,
    BadSignature,
    Trailing,
    Base64,
}
impl Rej {
    /// rejected for a structural rule (not because the signature check failed)
    pub fn structural(self) -> bool {
        !matches!(self, Rej::BadSignature)
    }
}

#[derive(Clone, Copy, Debug, PartialEq, Eq, Hash)]
pub enum Unspec {
    ListInner,
    Pk65,
    OtherSchemeEntryNotString,
    VerifierDisagree,
}

#[derive(Clone, Debug, PartialEq, Eq)]
pub enum RefOutcome {
    Accept(RefRecord),
    Reject(Rej),
    Unspecified(Unspec),
}
impl RefOutcome {
    pub fn accepted(&self) -> Option<&RefRecord> {
        match self {
            RefOutcome::Accept(r) => Some(r),
            _ => None,
        }
    }
}

pub fn node_id_of(scheme: Scheme, pk: &[u8]) -> Option<[u8; 32]> {
    match scheme {
        Scheme::Secp => crypto::secp_uncompressed(pk).map(|u| keccak256(&u)),
        Scheme::Ed => {
            if crypto::ed_pk_valid(pk) {
                Some(keccak256(pk))
            } else {
                None
            }
        }
    }
}

/// content bytes that are signed: list header over (seq, k1, v1, ...) given as raw payload bytes
pub fn content_bytes(seq_and_pairs_payload: &[u8]) -> Vec<u8> {
    let mut out = Vec::new();
    rlp::enc_list_payload(&mut out, seq_and_pairs_payload);
    out
}

/// Reference-encode the signed content from fields.
pub fn content_from_fields(seq: u64, pairs: &[(Vec<u8>, Vec<u8>)]) -> Vec<u8> {
    let mut p = rlp::encode_uint(seq);
    for (k, v) in pairs {
        rlp::enc_str(&mut p, k);
        p.extend_from_slice(v);
    }
    content_bytes(&p)
}

/// Reference-encode a whole record from fields.
pub fn record_from_fields(sig: &[u8], seq: u64, pairs: &[(Vec<u8>, Vec<u8>)]) -> Vec<u8> {
    let mut p = rlp::encode_str(sig);
    p.extend_from_slice(&rlp::encode_uint(seq));
    for (k, v) in pairs {
        rlp::enc_str(&mut p, k);
        p.extend_from_slice(v);
    }
    content_bytes(&p)
}

pub fn verify_fields(scheme: Scheme, pk: &[u8], seq: u64, pairs: &[(Vec<u8>, Vec<u8>)], sig: &[u8]) -> Verdict {
    let c = content_from_fields(seq, pairs);
    match scheme {
        Scheme::Secp => crypto::secp_verify(pk, &c, sig),
        Scheme::Ed => {
            if crypto::ed_pk_valid(pk) {
                crypto::ed_verify(pk, &c, sig)
            } else {
                Verdict::Invalid
            }
        }
    }
}

fn well_formed_inner(payload: &[u8]) -> bool {
    let mut off = 0;
    while off < payload.len() {
        match rlp::decode_item(&payload[off..]) {
            Ok((_, n)) => off += n,
            Err(_) => return false,
        }
    }
    true
}

/// Decode the first complete item of `buf` as a record under `kt`.
pub fn ref_decode(buf: &[u8], kt: KeyType) -> RefOutcome {
    use RefOutcome::*;
    let (is_list, hl, pl) = match header_at(buf) {
        Ok(h) => h,
        Err(_) => return Reject(Rej::Framing),
    };
    if !is_list {
        return Reject(Rej::NotList);
    }
    let total = hl + pl;
    if total > 300 {
        return Reject(Rej::TooLarge);
    }
    let payload = &buf[hl..total];
    // split top-level elements
    let mut elems: Vec<(bool, &[u8], &[u8])> = Vec::new(); // (is_list, raw, payload)
    let mut off = 0;
    while off < payload.len() {
        match header_at(&payload[off..]) {
            Ok((l, h, p)) => {
                elems.push((l, &payload[off..off + h + p], &payload[off + h..off + h + p]));
                off += h + p;
            }
            Err(_) => return Reject(Rej::Framing),
        }
    }
    if elems.is_empty() {
        return Reject(Rej::NoSignature);
    }
    if elems[0].0 {
        return Reject(Rej::SigNotString);
    }
    let sig = elems[0].2.to_vec();
    let sig_raw_len = elems[0].1.len();
    if elems.len() < 2 {
        return Reject(Rej::NoSeq);
    }
    if elems[1].0 {
        return Reject(Rej::SeqNotCanonical);
    }
    let seq = match rlp::str_to_u64(elems[1].2) {
        Some(s) => s,
        None => return Reject(Rej::SeqNotCanonical),
    };
    let rest = &elems[2..];
    let mut pairs: Vec<(Vec<u8>, Vec<u8>)> = Vec::new();
    let mut unspec: Option<Unspec> = None;
    let mut i = 0;
    while i < rest.len() {
        let (kl, _, kp) = rest[i];
        if kl {
            return Reject(Rej::KeyNotString);
        }
        if let Some((pk, _)) = pairs.last() {
            if pk.as_slice() >= kp {
                return Reject(Rej::Unsorted);
            }
        }
        if i + 1 >= rest.len() {
            return Reject(Rej::MissingValue);
        }
        let (vl, vraw, vp) = rest[i + 1];
        match kp {
            b"id" => {
                if vl || vp != b"v4" {
                    return Reject(Rej::IdBad);
                }
            }
            b"ip" => {
                if vl || vp.len() != 4 {
                    return Reject(Rej::IpBad);
                }
            }
            b"ip6" => {
                if vl || vp.len() != 16 {
                    return Reject(Rej::Ip6Bad);
                }
            }
            b"tcp" | b"tcp6" | b"udp" | b"udp6" => {
                if vl || rlp::str_to_u16(vp).is_none() {
                    return Reject(Rej::PortBad);
                }
            }
            b"secp256k1" | b"ed25519" => {}
            _ => {
                if vl && !well_formed_inner(vp) {
                    unspec.get_or_insert(Unspec::ListInner);
                }
            }
        }
        pairs.push((kp.to_vec(), vraw.to_vec()));
        i += 2;
    }
    let get = |k: &[u8]| -> Option<(bool, Vec<u8>)> {
        let mut j = 0;
        while j + 1 < rest.len() {
            if rest[j].2 == k {
                return Some((rest[j + 1].0, rest[j + 1].2.to_vec()));
            }
            j += 2;
        }
        None
    };
    if get(b"id").is_none() {
        return Reject(Rej::IdMissing);
    }
    let secp = get(b"secp256k1");
    let ed = get(b"ed25519");
    // public key per key type
    let mut chosen: Option<(Scheme, Vec<u8>)> = None;
    let mut pk_rej: Option<Rej> = None;
    match kt {
        KeyType::K256 | KeyType::Libsecp => {
            if let Some((true, _)) = ed {
                unspec.get_or_insert(Unspec::OtherSchemeEntryNotString);
            }
            match secp {
                None => pk_rej = Some(Rej::PkMissing),
                Some((true, _)) => pk_rej = Some(Rej::PkBad),
                Some((false, b)) => {
                    if b.len() == 65 {
                        unspec.get_or_insert(Unspec::Pk65);
                    } else if crypto::secp_pk_valid(&b) {
                        chosen = Some((Scheme::Secp, b));
                    } else {
                        pk_rej = Some(Rej::PkBad);
                    }
                }
            }
        }
        KeyType::Ed => {
            if let Some((true, _)) = secp {
                unspec.get_or_insert(Unspec::OtherSchemeEntryNotString);
            }
            match ed {
                None => pk_rej = Some(Rej::PkMissing),
                Some((true, _)) => pk_rej = Some(Rej::PkBad),
                Some((false, b)) => {
                    if crypto::ed_pk_valid(&b) {
                        chosen = Some((Scheme::Ed, b));
                    } else {
                        pk_rej = Some(Rej::PkBad);
                    }
                }
            }
        }
        KeyType::Combined => {
            let secp_list = matches!(secp, Some((true, _)));
            let ed_list = matches!(ed, Some((true, _)));
            let mut secp65 = false;
            if let Some((false, b)) = &secp {
                if b.len() == 65 {
                    secp65 = true;
                } else if crypto::secp_pk_valid(b) {
                    chosen = Some((Scheme::Secp, b.clone()));
                }
            }
            if chosen.is_none() {
                if let Some((false, b)) = &ed {
                    if crypto::ed_pk_valid(b) {
                        chosen = Some((Scheme::Ed, b.clone()));
                    }
                }
            }
            if secp65 {
                unspec.get_or_insert(Unspec::Pk65);
                chosen = None;
            } else if secp_list || ed_list {
                // a list-typed entry of either scheme: the crate types both entries as strings,
                // the statement does not say; only definite when no usable key exists at all
                if chosen.is_some() {
                    unspec.get_or_insert(Unspec::OtherSchemeEntryNotString);
                    chosen = None;
                } else {
                    pk_rej = Some(Rej::PkBad);
                }
            } else if chosen.is_none() {
                pk_rej = Some(if secp.is_none() && ed.is_none() { Rej::PkMissing } else { Rej::PkBad });
            }
        }
    }
    if let Some(r) = pk_rej {
        return Reject(r);
    }
    let (scheme, pk) = match chosen {
        Some(c) => c,
        None => return Unspecified(unspec.expect("no key chosen only in an unspecified region")),
    };
    // signature over the verbatim content bytes
    let content = content_bytes(&payload[sig_raw_len..]);
    let v = match scheme {
        Scheme::Secp => crypto::secp_verify(&pk, &content, &sig),
        Scheme::Ed => crypto::ed_verify(&pk, &content, &sig),
    };
    match v {
        Verdict::Invalid => return Reject(Rej::BadSignature),
        Verdict::Disagree => return Unspecified(Unspec::VerifierDisagree),
        Verdict::Valid => {}
    }
    if let Some(u) = unspec {
        return Unspecified(u);
    }
    let node_id = node_id_of(scheme, &pk).expect("valid key");
    Accept(RefRecord {
        sig,
        seq,
        pairs,
        scheme,
        pk,
        node_id,
        consumed: total,
    })
}

/// `buf` must be exactly one record.
pub fn ref_decode_exact(buf: &[u8], kt: KeyType) -> RefOutcome {
    match ref_decode(buf, kt) {
        RefOutcome::Accept(r) if r.consumed != buf.len() => RefOutcome::Reject(Rej::Trailing),
        o => o,
    }
}

/// Text form: optional literal `enr:` prefix, strict unpadded URL-safe base64 of exactly one record.
pub fn ref_parse_text(s: &str, kt: KeyType) -> RefOutcome {
    let body = s.strip_prefix("enr:").unwrap_or(s);
    let bytes = match super::b64::decode(body) {
        Some(b) => b,
        None => return RefOutcome::Reject(Rej::Base64),
    };
    // trailing bytes after a complete first item are a definite reject whatever the item is
    if let Ok((_, h, p)) = header_at(&bytes) {
        if h + p != bytes.len() {
            return RefOutcome::Reject(Rej::Trailing);
        }
    }
    ref_decode_exact(&bytes, kt)
}
