//! Independent signing / verification / key derivation used by the oracles.
//! secp256k1: libsecp256k1 called directly, cross-checked with k256 called directly.
//! ed25519: ed25519-dalek called directly on reference-computed content; public keys derived
//! with sha2 + curve25519-dalek.
use super::keccak::keccak256;

pub const N: [u8; 32] = [
    0xff, 0xff, 0xff, 0xff, 0xff, 0xff, 0xff, 0xff, 0xff, 0xff, 0xff, 0xff, 0xff, 0xff, 0xff, 0xfe,
    0xba, 0xae, 0xdc, 0xe6, 0xaf, 0x48, 0xa0, 0x3b, 0xbf, 0xd2, 0x5e, 0x8c, 0xd0, 0x36, 0x41, 0x41,
];
pub const HALF_N: [u8; 32] = [
    0x7f, 0xff, 0xff, 0xff, 0xff, 0xff, 0xff, 0xff, 0xff, 0xff, 0xff, 0xff, 0xff, 0xff, 0xff, 0xff,
    0x5d, 0x57, 0x6e, 0x73, 0x57, 0xa4, 0x50, 0x1d, 0xdf, 0xe9, 0x2f, 0x46, 0x68, 0x1b, 0x20, 0xa0,
];

pub fn is_zero(a: &[u8]) -> bool {
    a.iter().all(|b| *b == 0)
}
/// big-endian compare of equal-length slices
pub fn lt(a: &[u8], b: &[u8]) -> bool {
    a < b
}
pub fn le(a: &[u8], b: &[u8]) -> bool {
    a <= b
}
/// a - b for 32-byte big-endian (a >= b)
pub fn sub32(a: &[u8; 32], b: &[u8; 32]) -> [u8; 32] {
    let mut out = [0u8; 32];
    let mut borrow = 0i16;
    for i in (0..32).rev() {
        let mut d = a[i] as i16 - b[i] as i16 - borrow;
        if d < 0 {
            d += 256;
            borrow = 1;
        } else {
            borrow = 0;
        }
        out[i] = d as u8;
    }
    out
}
pub fn add32_small(a: &[u8; 32], v: u8) -> [u8; 32] {
    let mut out = *a;
    let mut c = v as u16;
    for i in (0..32).rev() {
        let s = out[i] as u16 + c;
        out[i] = s as u8;
        c = s >> 8;
    }
    out
}
pub fn sub32_small(a: &[u8; 32], v: u8) -> [u8; 32] {
    let mut b = [0u8; 32];
    b[31] = v;
    sub32(a, &b)
}

/// valid secp256k1 secret scalar: 0 < int(bytes) < n (own comparison)
pub fn secp_secret_valid(s: &[u8; 32]) -> bool {
    !is_zero(s) && lt(s, &N)
}

pub fn secp_pk_from_secret(s: &[u8; 32]) -> Option<[u8; 33]> {
    let sk = secp256k1::SecretKey::from_slice(s).ok()?;
    Some(secp256k1::PublicKey::from_secret_key(secp256k1::SECP256K1, &sk).serialize())
}

/// second derivation through k256 directly
pub fn secp_pk_from_secret_k256(s: &[u8; 32]) -> Option<[u8; 33]> {
    let sk = k256::ecdsa::SigningKey::from_slice(s).ok()?;
    let ep = sk.verifying_key().to_encoded_point(true);
    let mut o = [0u8; 33];
    o.copy_from_slice(ep.as_bytes());
    Some(o)
}

/// A `secp256k1` entry is a valid *compressed* key: 33 bytes, tag 02/03, x on the curve.
pub fn secp_pk_valid(b: &[u8]) -> bool {
    if b.len() != 33 || !(b[0] == 2 || b[0] == 3) {
        return false;
    }
    secp256k1::PublicKey::from_slice(b).is_ok()
}

/// 64-byte x||y of a valid compressed key
pub fn secp_uncompressed(b: &[u8]) -> Option<[u8; 64]> {
    if !secp_pk_valid(b) {
        return None;
    }
    let pk = secp256k1::PublicKey::from_slice(b).ok()?;
    let u = pk.serialize_uncompressed();
    let mut o = [0u8; 64];
    o.copy_from_slice(&u[1..]);
    // cross-check via k256 directly
    if let Ok(vk) = k256::ecdsa::VerifyingKey::from_sec1_bytes(b) {
        let ep = vk.to_encoded_point(false);
        assert_eq!(&ep.as_bytes()[1..], &o[..], "libsecp/k256 disagree on decompression");
    }
    Some(o)
}

/// Deterministic (RFC 6979) low-S signature over keccak256(content) with libsecp256k1.
pub fn secp_sign(secret: &[u8; 32], content: &[u8]) -> [u8; 64] {
    let sk = secp256k1::SecretKey::from_slice(secret).expect("valid secret");
    let m = secp256k1::Message::from_digest(keccak256(content));
    secp256k1::SECP256K1.sign_ecdsa(&m, &sk).serialize_compact()
}

/// Same through k256 called directly (RFC 6979, normalised to low-S).
pub fn secp_sign_k256(secret: &[u8; 32], content: &[u8]) -> [u8; 64] {
    use k256::ecdsa::signature::hazmat::PrehashSigner;
    let sk = k256::ecdsa::SigningKey::from_slice(secret).expect("valid secret");
    let sig: k256::ecdsa::Signature = sk.sign_prehash(&keccak256(content)).expect("sign");
    let sig = sig.normalize_s().unwrap_or(sig);
    let mut o = [0u8; 64];
    o.copy_from_slice(&sig.to_bytes());
    o
}

#[derive(Clone, Copy, Debug, PartialEq, Eq)]
pub enum Verdict {
    Valid,
    Invalid,
    /// the two libraries disagree (never observed) — counted as unspecified
    Disagree,
}

/// "valid v4 signature": exactly 64 bytes, 1 <= r,s < n, s <= n/2, ECDSA-verifies.
pub fn secp_verify(pk33: &[u8], content: &[u8], sig: &[u8]) -> Verdict {
    if sig.len() != 64 || !secp_pk_valid(pk33) {
        return Verdict::Invalid;
    }
    let (r, s) = (&sig[..32], &sig[32..]);
    if is_zero(r) || is_zero(s) || !lt(r, &N) || !lt(s, &N) || !le(s, &HALF_N) {
        return Verdict::Invalid;
    }
    let h = keccak256(content);
    let a = (|| {
        let pk = secp256k1::PublicKey::from_slice(pk33).ok()?;
        let sg = secp256k1::ecdsa::Signature::from_compact(sig).ok()?;
        let m = secp256k1::Message::from_digest(h);
        secp256k1::SECP256K1.verify_ecdsa(&m, &sg, &pk).ok()
    })()
    .is_some();
    let b = (|| {
        use k256::ecdsa::signature::hazmat::PrehashVerifier;
        let vk = k256::ecdsa::VerifyingKey::from_sec1_bytes(pk33).ok()?;
        let sg = k256::ecdsa::Signature::from_slice(sig).ok()?;
        vk.verify_prehash(&h, &sg).ok()
    })()
    .is_some();
    match (a, b) {
        (true, true) => Verdict::Valid,
        (false, false) => Verdict::Invalid,
        _ => Verdict::Disagree,
    }
}

/// high-S twin (r, n - s)
pub fn high_s_twin(sig: &[u8; 64]) -> [u8; 64] {
    let mut s = [0u8; 32];
    s.copy_from_slice(&sig[32..]);
    let t = sub32(&N, &s);
    let mut o = *sig;
    o[32..].copy_from_slice(&t);
    o
}

// ---------------- ed25519 ----------------

/// public key of a 32-byte seed, derived with sha2 + curve25519-dalek (not ed25519-dalek)
pub fn ed_pk_from_seed(seed: &[u8; 32]) -> [u8; 32] {
    use sha2::{Digest, Sha512};
    let h = Sha512::digest(seed);
    let mut a = [0u8; 32];
    a.copy_from_slice(&h[..32]);
    a[0] &= 248;
    a[31] &= 127;
    a[31] |= 64;
    let sc = curve25519_dalek::scalar::Scalar::from_bytes_mod_order(a);
    // clamped value < 2^255; reduce mod l is fine for multiplication by the base point
    (curve25519_dalek::constants::ED25519_BASEPOINT_POINT * sc)
        .compress()
        .to_bytes()
}

pub fn ed_pk_valid(b: &[u8]) -> bool {
    if b.len() != 32 {
        return false;
    }
    let mut a = [0u8; 32];
    a.copy_from_slice(b);
    curve25519_dalek::edwards::CompressedEdwardsY(a)
        .decompress()
        .is_some()
}

pub fn ed_sign(seed: &[u8; 32], content: &[u8]) -> [u8; 64] {
    use ed25519_dalek::Signer;
    ed25519_dalek::SigningKey::from_bytes(seed)
        .sign(content)
        .to_bytes()
}

pub fn ed_verify(pk: &[u8], content: &[u8], sig: &[u8]) -> Verdict {
    use ed25519_dalek::Verifier;
    if sig.len() != 64 || pk.len() != 32 {
        return Verdict::Invalid;
    }
    let mut p = [0u8; 32];
    p.copy_from_slice(pk);
    let vk = match ed25519_dalek::VerifyingKey::from_bytes(&p) {
        Ok(v) => v,
        Err(_) => return Verdict::Invalid,
    };
    let mut s = [0u8; 64];
    s.copy_from_slice(sig);
    let sg = ed25519_dalek::Signature::from_bytes(&s);
    if vk.verify(content, &sg).is_ok() {
        Verdict::Valid
    } else {
        Verdict::Invalid
    }
}

pub fn self_check() {
    // RFC 8032 test 1
    let seed = crate::hexser::unhex("9d61b19deffd5a60ba844af492ec2cc44449c5697b326919703bac031cae7f60").unwrap();
    let mut s = [0u8; 32];
    s.copy_from_slice(&seed);
    assert_eq!(
        crate::hexser::hex(&ed_pk_from_seed(&s)),
        "d75a980182b10ab7d54bfed3c964073a0ee172f3daa62325af021a68f707511a"
    );
    // RFC 8032 test 2
    let seed = crate::hexser::unhex("4ccd089b28ff96da9db6c346ec114e0f5b8a319f35aba624da8cf6ed4fb8a6fb").unwrap();
    s.copy_from_slice(&seed);
    assert_eq!(
        crate::hexser::hex(&ed_pk_from_seed(&s)),
        "3d4017c3e843895a92b70aa74d1b7ebc9c982ccf2ec4968cc0cd55f12af4660c"
    );
    // secp: scalar 1 -> generator
    let mut one = [0u8; 32];
    one[31] = 1;
    assert_eq!(
        crate::hexser::hex(&secp_pk_from_secret(&one).unwrap()),
        "0279be667ef9dcbbac55a06295ce870b07029bfcdb2dce28d959f2815b16f81798"
    );
    assert_eq!(secp_pk_from_secret(&one), secp_pk_from_secret_k256(&one));
    assert!(!secp_secret_valid(&N));
    assert!(secp_secret_valid(&sub32_small(&N, 1)));
    assert_eq!(add32_small(&HALF_N, 0), HALF_N);
    // n = 2*half + 1
    let twice = {
        let mut c = 0u16;
        let mut o = [0u8; 32];
        for i in (0..32).rev() {
            let v = (HALF_N[i] as u16) * 2 + c;
            o[i] = v as u8;
            c = v >> 8;
        }
        o
    };
    assert_eq!(add32_small(&twice, 1), N);
    let sig = secp_sign(&one, b"x");
    let pk = secp_pk_from_secret(&one).unwrap();
    assert_eq!(secp_verify(&pk, b"x", &sig), Verdict::Valid);
    assert_eq!(secp_verify(&pk, b"y", &sig), Verdict::Invalid);
    assert_eq!(secp_verify(&pk, b"x", &high_s_twin(&sig)), Verdict::Invalid);
    let sig2 = secp_sign_k256(&one, b"x");
    assert_eq!(secp_verify(&pk, b"x", &sig2), Verdict::Valid);
}
