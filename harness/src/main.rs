use enrverif::engine::{self, RunCtx};
use std::path::PathBuf;

fn usage() -> ! {
    eprintln!("usage: enrcheck <ID> quick|thorough | <ID> --replay <file>   [--verif-dir DIR]");
    std::process::exit(2)
}

fn main() {
    let args: Vec<String> = std::env::args().skip(1).collect();
    if args.len() < 2 {
        usage();
    }
    let mut verif_dir = PathBuf::from(std::env::var("VERIF_DIR").unwrap_or_else(|_| "/verif".into()));
    let mut rest = Vec::new();
    let mut i = 0;
    while i < args.len() {
        if args[i] == "--verif-dir" && i + 1 < args.len() {
            verif_dir = PathBuf::from(&args[i + 1]);
            i += 2;
        } else {
            rest.push(args[i].clone());
            i += 1;
        }
    }
    if rest[0] == "--grind-edkeys" {
        let recs = enrverif::sigshapes::grind_edkeys(3_000_000);
        std::fs::write(&rest[1], serde_json::to_string_pretty(&recs).unwrap()).unwrap();
        eprintln!("{} records", recs.len());
        return;
    }
    if rest[0] == "--grind-sigshapes" {
        let recs = enrverif::sigshapes::grind(3_000_000);
        std::fs::write(&rest[1], serde_json::to_string_pretty(&recs).unwrap()).unwrap();
        eprintln!("{} records", recs.len());
        return;
    }
    let seed = std::env::var("VERIF_SEED")
        .ok()
        .and_then(|s| {
            let s = s.trim();
            if let Some(h) = s.strip_prefix("0x") {
                u64::from_str_radix(h, 16).ok()
            } else {
                s.parse::<u64>().ok().or_else(|| s.parse::<i64>().ok().map(|v| v as u64))
            }
        })
        .unwrap_or(0x454E52);
    let threads = std::env::var("VERIF_THREADS")
        .ok()
        .and_then(|s| s.parse().ok())
        .unwrap_or_else(|| std::thread::available_parallelism().map(|n| n.get()).unwrap_or(4).min(16));
    let ctx = RunCtx { verif_dir, seed, threads };
    let prop = match enrverif::props::by_id(&rest[0]) {
        Some(p) => p,
        None => {
            eprintln!("unknown property {}", rest[0]);
            std::process::exit(2)
        }
    };
    let code = match rest[1].as_str() {
        "quick" => engine::run_property(prop.as_ref(), true, &ctx),
        "thorough" => engine::run_property(prop.as_ref(), false, &ctx),
        "--replay" => {
            if rest.len() < 3 {
                usage();
            }
            engine::replay(prop.as_ref(), &PathBuf::from(&rest[2]), &ctx)
        }
        _ => usage(),
    };
    std::process::exit(code)
}
