//! Thorough tier: libFuzzer campaigns (cargo-fuzz targets in /verif/fuzz) with the property's
//! oracle inside the target.  An artifact is never trusted as such: it is mapped back to a case and
//! re-judged by the deterministic release harness; only then is it reported.
use crate::cases::Case;
use crate::choices::{det_entropy, Choices};
use crate::engine::{Property, RunCtx, Stats};
use std::path::{Path, PathBuf};
use std::process::Command;

fn build(ctx: &RunCtx, target: &str) -> Result<PathBuf, String> {
    let fuzz_dir = ctx.verif_dir.join("fuzz");
    let out = Command::new("cargo")
        .args(["+nightly", "fuzz", "build", "--fuzz-dir"])
        .arg(&fuzz_dir)
        .arg(target)
        .current_dir(ctx.verif_dir.join("harness"))
        .env("CARGO_NET_OFFLINE", "true")
        .output()
        .map_err(|e| format!("cannot run cargo fuzz: {e}"))?;
    if !out.status.success() {
        let err = String::from_utf8_lossy(&out.stderr);
        return Err(format!("cargo fuzz build failed: {}", err.lines().rev().take(5).collect::<Vec<_>>().join(" | ")));
    }
    let bin = fuzz_dir.join("target/x86_64-unknown-linux-gnu/release").join(target);
    if bin.exists() {
        Ok(bin)
    } else {
        Err(format!("fuzz binary {bin:?} not found"))
    }
}

/// the case an artifact of `target` stands for, under property `p`
pub fn artifact_case(p: &dyn Property, target: &str, data: &[u8]) -> Option<Case> {
    match target {
        "wire_raw" => {
            if p.id() == "C13" {
                match crate::refmodel::rlp::header_at(data) {
                    Ok((_, h, n)) if h + n <= data.len() => Some(Case::Stream(crate::cases::StreamCase {
                        items: vec![data[..h + n].to_vec()],
                        suffix: data[h + n..].to_vec(),
                        as_list: false,
                        label: "fuzz-raw".into(),
                    })),
                    _ => None,
                }
            } else {
                Some(crate::fuzzglue::raw_case(data))
            }
        }
        "wire_struct" => Some(p.gen(&mut Choices::new(data))),
        "history" => Some(crate::fuzzglue::hist_case(data)),
        _ => None,
    }
}

fn seed_corpus(target: &str, dir: &Path) {
    let n = 48;
    for j in 0..n {
        let e = det_entropy(&format!("corpus/{target}"), j, 1400);
        let bytes = match target {
            "wire_raw" => {
                let mut c = Choices::new(&e);
                let d = crate::gen::wire::gen_valid_draft(&mut c);
                crate::gen::wire::valid_bytes(&d)
            }
            _ => e,
        };
        let _ = std::fs::write(dir.join(format!("seed-{j:03}")), bytes);
    }
    if target == "wire_raw" {
        // the EIP-778 example record
        if let Some(b) = crate::refmodel::b64::decode("-IS4QHCYrYZbAKWCBRlAy5zzaDZXJBGkcnh4MHcBFZntXNFrdvJjX04jRzjzCBOonrkTfj499SZuOh8R33Ls8RRcy5wBgmlkgnY0gmlwhH8AAAGJc2VjcDI1NmsxoQPKY0yuDUmstAHYpMa2_oxVtw0RW_QAdpzBQA8yWM0xOIN1ZHCCdl8") {
            let _ = std::fs::write(dir.join("seed-eip778"), b);
        }
    }
}

/// One campaign pair (seeded corpus + empty corpus) of `target` with only `p`'s oracle enabled.
pub fn campaign(p: &dyn Property, target: &'static str, runs: u64, ctx: &RunCtx, st: &mut Stats) -> Result<(), (Case, String)> {
    let bin = match build(ctx, target) {
        Ok(b) => b,
        Err(e) => {
            eprintln!("note: fuzz stage unavailable for {} ({target}): {e}", p.id());
            st.label(&format!("fuzz:{target}:unavailable"));
            return Ok(());
        }
    };
    let jobs = (ctx.threads / 2).max(1);
    for (ci, corpus_kind) in ["seeded", "empty"].iter().enumerate() {
        let work = ctx.verif_dir.join("fuzz/corpus-run").join(format!("{}-{target}-{corpus_kind}", p.id()));
        let _ = std::fs::remove_dir_all(&work);
        let corpus = work.join("corpus");
        let arts = work.join("artifacts");
        std::fs::create_dir_all(&corpus).ok();
        std::fs::create_dir_all(&arts).ok();
        if *corpus_kind == "seeded" {
            seed_corpus(target, &corpus);
        }
        let max_len = if target == "wire_raw" { 700 } else { 1500 };
        let seed = ((ctx.seed ^ (ci as u64) << 17) % 0xffff_fffe) + 1;
        let out = Command::new(&bin)
            .arg(&corpus)
            .arg(format!("-runs={runs}"))
            .arg(format!("-seed={seed}"))
            .arg(format!("-max_len={max_len}"))
            .arg("-len_control=0")
            .arg("-timeout=30")
            .arg("-rss_limit_mb=4096")
            .arg(format!("-jobs={jobs}"))
            .arg(format!("-workers={jobs}"))
            .arg("-print_final_stats=1")
            .arg(format!("-artifact_prefix={}/", arts.display()))
            .current_dir(&work)
            .env("ENR_FUZZ_PROPS", p.id())
            .env("VERIF_DIR", &ctx.verif_dir)
            .output();
        let out = match out {
            Ok(o) => o,
            Err(e) => {
                eprintln!("note: cannot run fuzz target {target}: {e}");
                st.label(&format!("fuzz:{target}:unavailable"));
                return Ok(());
            }
        };
        let _ = out;
        // executed units from the per-job logs
        let mut execs = 0u64;
        if let Ok(rd) = std::fs::read_dir(&work) {
            for f in rd.flatten() {
                let name = f.file_name().to_string_lossy().to_string();
                if name.starts_with("fuzz-") && name.ends_with(".log") {
                    if let Ok(t) = std::fs::read_to_string(f.path()) {
                        for l in t.lines() {
                            if let Some(v) = l.strip_prefix("stat::number_of_executed_units:") {
                                execs += v.trim().parse::<u64>().unwrap_or(0);
                            }
                        }
                    }
                }
            }
        }
        st.label_n(&format!("fuzz:{target}:{corpus_kind}:executions"), execs);
        st.evaluations += execs;
        // artifacts
        let mut files: Vec<PathBuf> = std::fs::read_dir(&arts).map(|rd| rd.flatten().map(|e| e.path()).collect()).unwrap_or_default();
        files.sort();
        for f in files {
            let data = match std::fs::read(&f) {
                Ok(d) => d,
                Err(_) => continue,
            };
            let name = f.file_name().unwrap().to_string_lossy().to_string();
            match artifact_case(p, target, &data) {
                Some(case) => {
                    let mut tmp = Stats::default();
                    match p.check(&case, &mut tmp) {
                        Err(m) => return Err((case, format!("found by libFuzzer target {target} ({corpus_kind} corpus): {m}"))),
                        Ok(()) => {
                            if name.starts_with("timeout-") && p.id() == "C03" {
                                return Err((case, format!("libFuzzer target {target}: input exceeded the 30 s per-input timeout (non-termination)")));
                            }
                            println!("note: fuzz artifact {} not reproduced by the deterministic harness (kept for inspection)", f.display());
                            st.label(&format!("fuzz:{target}:artifact-not-reproduced"));
                        }
                    }
                }
                None => {
                    st.label(&format!("fuzz:{target}:artifact-unmapped"));
                }
            }
        }
        if st.labels.get(&format!("fuzz:{target}:artifact-not-reproduced")).is_none() {
            let _ = std::fs::remove_dir_all(&work);
        }
    }
    Ok(())
}
