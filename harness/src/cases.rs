//! The one serialisable case type shared by all properties (replay files hold one of these).
use crate::case::History;
use serde::{Deserialize, Serialize};

#[derive(Clone, Debug, PartialEq, Eq, Hash, Serialize, Deserialize)]
pub enum NodeIdCase {
    Raw32(#[serde(with = "crate::hexser")] Vec<u8>),
    Slice(#[serde(with = "crate::hexser")] Vec<u8>),
    /// a string handed to the deserialiser as a JSON string
    Hex(String),
    /// arbitrary JSON text handed to the deserialiser
    Json(String),
}

#[derive(Clone, Debug, PartialEq, Eq, Hash, Serialize, Deserialize)]
pub struct KeyImportCase {
    pub ed: bool,
    #[serde(with = "crate::hexser")]
    pub bytes: Vec<u8>,
    /// updates applied to a record built with the imported key
    pub ports: Vec<u16>,
}

/// A byte string handed to `decode` (under all four key types) and, base64-encoded, to the parser.
#[derive(Clone, Debug, PartialEq, Eq, Hash, Serialize, Deserialize)]
pub struct WireCase {
    #[serde(with = "crate::hexser")]
    pub bytes: Vec<u8>,
    /// how the generator made it (histogram / non-trivial rule only; never used by an oracle)
    pub label: String,
    /// the base record carried a custom key
    pub has_custom: bool,
}

#[derive(Clone, Debug, PartialEq, Eq, Hash, Serialize, Deserialize)]
pub enum Case {
    Hist(History),
    Wire(WireCase),
    NodeId(NodeIdCase),
    KeyImport(KeyImportCase),
}
