//! The one serialisable case type shared by all properties (replay files hold one of these).
use crate::case::History;
use serde::{Deserialize, Serialize};

#[derive(Clone, Debug, PartialEq, Eq, Hash, Serialize, Deserialize)]
pub enum NodeIdCase {
    Raw32(#[serde(with = "crate::hexser")] Vec<u8>),
    Slice(#[serde(with = "crate::hexser")] Vec<u8>),
    /// a string handed to the deserialiser as a JSON string
    Hex(String),
    /// arbitrary JSON text handed to the deserialiser
    Json(String),
}

#[derive(Clone, Debug, PartialEq, Eq, Hash, Serialize, Deserialize)]
pub struct KeyImportCase {
    pub ed: bool,
    #[serde(with = "crate::hexser")]
    pub bytes: Vec<u8>,
    /// updates applied to a record built with the imported key
    pub ports: Vec<u16>,
}

/// A byte string handed to `decode` (under all four key types) and, base64-encoded, to the parser.
#[derive(Clone, Debug, PartialEq, Eq, Hash, Serialize, Deserialize)]
pub struct WireCase {
    #[serde(with = "crate::hexser")]
    pub bytes: Vec<u8>,
    /// how the generator made it (histogram / non-trivial rule only; never used by an oracle)
    pub label: String,
    /// the base record carried a custom key
    pub has_custom: bool,
}

/// Complete RLP items (records, valid or not) followed by arbitrary bytes.
#[derive(Clone, Debug, PartialEq, Eq, Hash, Serialize, Deserialize)]
pub struct StreamCase {
    #[serde(with = "crate::hexser::vecvec")]
    pub items: Vec<Vec<u8>>,
    #[serde(with = "crate::hexser")]
    pub suffix: Vec<u8>,
    /// wrap the items in an RLP list and decode it as `Vec<Enr<K>>`
    pub as_list: bool,
    pub label: String,
}

/// A string handed to `from_str` and (JSON-quoted) to the deserialiser.
#[derive(Clone, Debug, PartialEq, Eq, Hash, Serialize, Deserialize)]
pub struct TextCase {
    pub s: String,
    pub label: String,
}

#[derive(Clone, Debug, PartialEq, Eq, Hash, Serialize, Deserialize)]
pub enum Case {
    Hist(History),
    Wire(WireCase),
    Stream(StreamCase),
    Text(TextCase),
    NodeId(NodeIdCase),
    KeyImport(KeyImportCase),
}
