//! Calls into the library under a dynamically chosen key type.
use crate::exec::{guarded, snap, Snap};
use crate::refmodel::record::KeyType;
use alloy_rlp::Decodable;
use enr::Enr;

#[macro_export]
macro_rules! with_key_type {
    ($kt:expr, $K:ident => $body:expr) => {
        match $kt {
            $crate::refmodel::record::KeyType::K256 => {
                type $K = $crate::keys::K256Key;
                $body
            }
            $crate::refmodel::record::KeyType::Libsecp => {
                type $K = $crate::keys::LibsecpKey;
                $body
            }
            $crate::refmodel::record::KeyType::Ed => {
                type $K = $crate::keys::EdKey;
                $body
            }
            $crate::refmodel::record::KeyType::Combined => {
                type $K = $crate::keys::CombKey;
                $body
            }
        }
    };
}

#[derive(Clone, Debug, PartialEq, Eq)]
pub enum LibOut {
    /// decoded record and number of bytes consumed from the buffer
    Ok(Snap, usize),
    Err(String),
    Panic(String),
}
impl LibOut {
    pub fn is_ok(&self) -> bool {
        matches!(self, LibOut::Ok(..))
    }
    pub fn snap(&self) -> Option<&Snap> {
        match self {
            LibOut::Ok(s, _) => Some(s),
            _ => None,
        }
    }
}

/// `Enr::<K>::decode(&mut buf)`
pub fn decode(kt: KeyType, bytes: &[u8]) -> LibOut {
    with_key_type!(kt, K => {
        let r = guarded(|| {
            let mut b: &[u8] = bytes;
            let r = Enr::<K>::decode(&mut b);
            r.map(|e| (snap(&e), bytes.len() - b.len()))
        });
        match r {
            Ok(Ok((s, n))) => LibOut::Ok(s, n),
            Ok(Err(e)) => LibOut::Err(format!("{e:?}")),
            Err(p) => LibOut::Panic(p),
        }
    })
}

/// `s.parse::<Enr<K>>()`
pub fn parse_text(kt: KeyType, s: &str) -> LibOut {
    with_key_type!(kt, K => {
        let r = guarded(|| s.parse::<Enr<K>>().map(|e| snap(&e)));
        match r {
            Ok(Ok(s)) => LibOut::Ok(s, 0),
            Ok(Err(e)) => LibOut::Err(e),
            Err(p) => LibOut::Panic(p),
        }
    })
}

/// `serde_json::from_str::<Enr<K>>(json)`
pub fn parse_json(kt: KeyType, json: &str) -> LibOut {
    with_key_type!(kt, K => {
        let r = guarded(|| serde_json::from_str::<Enr<K>>(json).map(|e| snap(&e)));
        match r {
            Ok(Ok(s)) => LibOut::Ok(s, 0),
            Ok(Err(e)) => LibOut::Err(e.to_string()),
            Err(p) => LibOut::Panic(p),
        }
    })
}

/// Compare a decoded record with the reference parse of the same bytes.
pub fn same_as_ref(s: &Snap, r: &crate::refmodel::record::RefRecord) -> Result<(), String> {
    if s.seq != r.seq {
        return Err(format!("seq {} != reference {}", s.seq, r.seq));
    }
    if s.pairs != r.pairs {
        return Err(format!("pairs differ from the reference parse: lib {:?} ref {:?}", hexpairs(&s.pairs), hexpairs(&r.pairs)));
    }
    if s.sig != r.sig {
        return Err("signature bytes differ from the reference parse".into());
    }
    match &s.pk {
        Ok(pk) if *pk == r.pk => {}
        o => return Err(format!("public key {:?} != reference {}", o.as_ref().map(|b| crate::hexser::hex(b)), crate::hexser::hex(&r.pk))),
    }
    if s.node_id != r.node_id {
        return Err(format!("node id {} != reference {}", crate::hexser::hex(&s.node_id), crate::hexser::hex(&r.node_id)));
    }
    Ok(())
}

pub fn hexpairs(p: &[(Vec<u8>, Vec<u8>)]) -> Vec<(String, String)> {
    p.iter()
        .map(|(k, v)| (String::from_utf8_lossy(k).to_string(), crate::hexser::hex(v)))
        .collect()
}

/// Decode up to `n` records sequentially from one buffer; stops after the first failure.
pub fn decode_seq(kt: KeyType, bytes: &[u8], n: usize) -> Vec<LibOut> {
    with_key_type!(kt, K => {
        let mut out = Vec::new();
        let mut b: &[u8] = bytes;
        for _ in 0..n {
            let before = b.len();
            let r = guarded(|| {
                let r = Enr::<K>::decode(&mut b);
                r.map(|e| snap(&e))
            });
            match r {
                Ok(Ok(s)) => out.push(LibOut::Ok(s, before - b.len())),
                Ok(Err(e)) => {
                    out.push(LibOut::Err(format!("{e:?}")));
                    break;
                }
                Err(p) => {
                    out.push(LibOut::Panic(p));
                    break;
                }
            }
        }
        out
    })
}

/// `Vec::<Enr<K>>::decode(&mut buf)`: Ok(records, consumed) / Err / Panic
pub fn decode_vec(kt: KeyType, bytes: &[u8]) -> Result<Result<(Vec<Snap>, usize), String>, String> {
    with_key_type!(kt, K => {
        guarded(|| {
            let mut b: &[u8] = bytes;
            let r = Vec::<Enr<K>>::decode(&mut b);
            match r {
                Ok(v) => Ok((v.iter().map(snap).collect(), bytes.len() - b.len())),
                Err(e) => Err(format!("{e:?}")),
            }
        })
    })
}

/// (to_base64(), Display, JSON text) of the record decoded from `bytes` under `kt`
pub fn text_forms(kt: KeyType, bytes: &[u8]) -> Option<Result<(String, String, String), String>> {
    with_key_type!(kt, K => {
        let e = Enr::<K>::decode(&mut &bytes[..]).ok()?;
        Some(guarded(|| (e.to_base64(), format!("{e}"), serde_json::to_string(&e).unwrap_or_else(|x| format!("<serialize error {x}>")))))
    })
}

/// The same string through the other serde_json entry points: owned value, reader, and a JSON
/// spelling with an escape (so that the deserialiser cannot borrow from the input).
pub fn parse_json_variants(kt: KeyType, s: &str) -> Vec<(&'static str, LibOut)> {
    with_key_type!(kt, K => {
        let conv = |r: Result<Result<Enr<K>, serde_json::Error>, String>| match r {
            Ok(Ok(e)) => LibOut::Ok(snap(&e), 0),
            Ok(Err(e)) => LibOut::Err(e.to_string()),
            Err(p) => LibOut::Panic(p),
        };
        let quoted = serde_json::to_string(s).unwrap();
        let escaped = match s.chars().next() {
            Some(c) if (c as u32) < 0x10000 => format!("\"\\u{:04x}{}", c as u32, &quoted[1 + serde_json::to_string(&c.to_string()).unwrap().len() - 2..]),
            _ => quoted.clone(),
        };
        vec![
            ("from_value", conv(guarded(|| serde_json::from_value::<Enr<K>>(serde_json::Value::String(s.to_string()))))),
            ("from_reader", conv(guarded(|| serde_json::from_reader::<_, Enr<K>>(quoted.as_bytes())))),
            ("from_str(escaped)", conv(guarded(|| serde_json::from_str::<Enr<K>>(&escaped)))),
            ("list from_value", {
                let r = guarded(|| serde_json::from_value::<Vec<Enr<K>>>(serde_json::Value::Array(vec![serde_json::Value::String(s.to_string())])));
                match r {
                    Ok(Ok(v)) if v.len() == 1 => LibOut::Ok(snap(&v[0]), 0),
                    Ok(Ok(_)) => LibOut::Err("wrong length".into()),
                    Ok(Err(e)) => LibOut::Err(e.to_string()),
                    Err(p) => LibOut::Panic(p),
                }
            }),
        ]
    })
}

/// (to_base64(), Display, JSON) of the record OBJECT obtained by parsing `s` (from_str), and of the
/// one obtained through serde from the quoted string; also a serialisation into a writer that is too
/// small (must fail) followed by a normal one (must be unaffected).
pub fn parsed_object_forms(kt: KeyType, s: &str) -> Option<Result<Vec<(String, String, String)>, String>> {
    with_key_type!(kt, K => {
        let e = s.parse::<Enr<K>>().ok()?;
        Some(guarded(|| {
            let mut out = Vec::new();
            let mut small = [0u8; 16];
            let _ = serde_json::to_writer(&mut small[..], &e);
            out.push((e.to_base64(), format!("{e}"), serde_json::to_string(&e).unwrap_or_default()));
            let c = e.clone();
            out.push((c.to_base64(), format!("{c}"), serde_json::to_string(&c).unwrap_or_default()));
            if let Ok(e2) = serde_json::from_str::<Enr<K>>(&serde_json::to_string(s).unwrap()) {
                out.push((e2.to_base64(), format!("{e2}"), serde_json::to_string(&e2).unwrap_or_default()));
            }
            out
        }))
    })
}
