//! Interpreter: runs a `History` against the real `Enr<K>` and reports every step to a visitor.
use crate::case::*;
use crate::keys::{self, Fam, FamId, FaultKey, VarKey};
use crate::refmodel::record;
use crate::refmodel::rlp;
use alloy_rlp::{Decodable, Encodable};
use bytes::Bytes;
use enr::{Enr, Error as EnrError};
use std::cell::RefCell;
use std::panic::{catch_unwind, AssertUnwindSafe};

// ---------------------------------------------------------------------------------------------
// panic capture

thread_local! {
    static LAST_PANIC: RefCell<Option<String>> = const { RefCell::new(None) };
    static QUIET: std::cell::Cell<bool> = const { std::cell::Cell::new(false) };
}

/// Process-global state a library may consult: in the main configuration a `log` logger is installed
/// at Trace level (so the arguments of every log statement of the library are evaluated; records are
/// discarded); the plain configuration runs without a logger (max level Off), like most programs.
pub fn install_logger() {
    struct Sink;
    impl log::Log for Sink {
        fn enabled(&self, _: &log::Metadata) -> bool {
            true
        }
        fn log(&self, r: &log::Record) {
            // format the arguments (their Display/Debug impls run), then drop the text
            let _ = format!("{}", r.args());
        }
        fn flush(&self) {}
    }
    if !cfg!(feature = "plainprofile") {
        static SINK: Sink = Sink;
        if log::set_logger(&SINK).is_ok() {
            log::set_max_level(log::LevelFilter::Trace);
        }
    }
}

pub fn install_panic_hook() {
    static ONCE: std::sync::Once = std::sync::Once::new();
    ONCE.call_once(|| {
        let default = std::panic::take_hook();
        std::panic::set_hook(Box::new(move |info| {
            if QUIET.with(|q| q.get()) {
                let msg = if let Some(s) = info.payload().downcast_ref::<&str>() {
                    s.to_string()
                } else if let Some(s) = info.payload().downcast_ref::<String>() {
                    s.clone()
                } else {
                    "<non-string panic>".to_string()
                };
                let loc = info
                    .location()
                    .map(|l| format!("{}:{}", l.file(), l.line()))
                    .unwrap_or_default();
                LAST_PANIC.with(|p| *p.borrow_mut() = Some(format!("{msg} @ {loc}")));
            } else {
                default(info);
            }
        }));
    });
}

/// Run `f`, turning a panic into `Err(message @ location)`.
pub fn guarded<R>(f: impl FnOnce() -> R) -> Result<R, String> {
    let was = QUIET.with(|q| q.replace(true));
    let r = catch_unwind(AssertUnwindSafe(f));
    QUIET.with(|q| q.set(was));
    r.map_err(|_| {
        LAST_PANIC
            .with(|p| p.borrow_mut().take())
            .unwrap_or_else(|| "<panic>".into())
    })
}

// ---------------------------------------------------------------------------------------------
// observations

#[derive(Clone, Debug, PartialEq, Eq)]
pub struct Snap {
    pub seq: u64,
    pub pairs: Vec<(Vec<u8>, Vec<u8>)>,
    pub sig: Vec<u8>,
    pub node_id: [u8; 32],
    pub enc: Vec<u8>,
    pub size: usize,
    /// `public_key().encode()`, or the panic message
    pub pk: Result<Vec<u8>, String>,
    pub pk_unc: Result<Vec<u8>, String>,
    pub verify: Result<bool, String>,
}

impl Snap {
    pub fn get(&self, key: &[u8]) -> Option<&Vec<u8>> {
        self.pairs.iter().find(|(k, _)| k == key).map(|(_, v)| v)
    }
    /// fields that must be identical for "observably identical" (C06)
    pub fn same_observable(&self, o: &Snap) -> bool {
        self.seq == o.seq
            && self.pairs == o.pairs
            && self.sig == o.sig
            && self.node_id == o.node_id
            && self.enc == o.enc
            && self.pk == o.pk
    }
}

pub fn snap<K: Fam>(e: &Enr<K>) -> Snap {
    let pairs: Vec<(Vec<u8>, Vec<u8>)> = e.iter().map(|(k, v)| (k.clone(), v.to_vec())).collect();
    let enc = alloy_rlp::encode(e);
    let pk = guarded(|| K::pk_bytes(&e.public_key()));
    let pk_unc = guarded(|| K::pk_uncompressed(&e.public_key()));
    let verify = guarded(|| e.verify());
    Snap {
        seq: e.seq(),
        pairs,
        sig: e.signature().to_vec(),
        node_id: e.node_id().raw(),
        enc,
        size: e.size(),
        pk,
        pk_unc,
        verify,
    }
}

#[derive(Clone, Copy, Debug, PartialEq, Eq, Hash, PartialOrd, Ord)]
pub enum EK {
    Size,
    SeqHigh,
    Signing,
    UnsupportedId,
    InvalidRlp,
}
pub fn ek_of(e: &EnrError) -> EK {
    match e {
        EnrError::ExceedsMaxSize => EK::Size,
        EnrError::SequenceNumberTooHigh => EK::SeqHigh,
        EnrError::SigningError => EK::Signing,
        EnrError::UnsupportedIdentityScheme => EK::UnsupportedId,
        EnrError::InvalidRlpData(_) => EK::InvalidRlp,
    }
}

#[derive(Clone, Debug, PartialEq, Eq)]
pub enum Ret {
    Unit,
    PrevRaw(Option<Vec<u8>>),
    PrevIp(Option<std::net::IpAddr>),
    PrevPort(Option<u16>),
    RemIns(Vec<Option<Vec<u8>>>, Vec<Option<Vec<u8>>>),
}

#[derive(Clone, Debug, PartialEq, Eq)]
pub enum CallRes {
    Ok(Ret),
    Err(EK, String),
    /// decode failure of `Redecode` / of the initial decoded record
    DecodeErr(String),
    Panic(String),
}
impl CallRes {
    pub fn is_ok(&self) -> bool {
        matches!(self, CallRes::Ok(_))
    }
    pub fn err_kind(&self) -> Option<EK> {
        match self {
            CallRes::Err(k, _) => Some(*k),
            _ => None,
        }
    }
}

/// An `Encodable` user type emitting an arbitrary well-formed item.
pub struct ItemEnc(pub Vec<u8>);
/// An iterator adaptor that reports a chosen (legal) `size_hint`.
pub struct Hinted<I>(pub I, pub Option<(usize, Option<usize>)>);
impl<I: Iterator> Iterator for Hinted<I> {
    type Item = I::Item;
    fn next(&mut self) -> Option<I::Item> {
        self.0.next()
    }
    fn size_hint(&self) -> (usize, Option<usize>) {
        self.1.unwrap_or_else(|| self.0.size_hint())
    }
}

/// the record behind `TVal::Record`
pub fn example_record() -> &'static Enr<crate::keys::ExampleKey> {
    static R: std::sync::OnceLock<Enr<crate::keys::ExampleKey>> = std::sync::OnceLock::new();
    #[cfg(feature = "builtin")]
    return R.get_or_init(|| Enr::decode(&mut crate::case::example_record_bytes()).expect("the committed example record decodes"));
    #[cfg(not(feature = "builtin"))]
    return R.get_or_init(|| Enr::builder().udp4(1).build(&crate::keys::TinyKey([9u8; 32], FamId::Tiny)).expect("example record"));
}

impl Encodable for ItemEnc {
    fn encode(&self, out: &mut dyn bytes::BufMut) {
        out.put_slice(&self.0);
    }
    fn length(&self) -> usize {
        self.0.len()
    }
}

fn map_res<T>(r: Result<T, EnrError>, f: impl FnOnce(T) -> Ret) -> CallRes {
    match r {
        Ok(v) => CallRes::Ok(f(v)),
        Err(e) => CallRes::Err(ek_of(&e), format!("{e:?}")),
    }
}

fn insert_tval<K: Fam>(e: &mut Enr<K>, key: &[u8], v: &TVal, k: &K) -> Result<Option<Bytes>, EnrError> {
    match v {
        TVal::Bytes(b) => e.insert(key, &Bytes::copy_from_slice(b), k),
        TVal::U8(x) => e.insert(key, x, k),
        TVal::U16(x) => e.insert(key, x, k),
        TVal::U64(x) => e.insert(key, x, k),
        TVal::Str(s) => e.insert(key, s, k),
        TVal::StrList(l) => e.insert(key, l, k),
        TVal::BytesList(l) => {
            let l: Vec<Bytes> = l.iter().map(|b| Bytes::copy_from_slice(b)).collect();
            e.insert(key, &l, k)
        }
        TVal::Item(i) => e.insert(key, &ItemEnc(rlp::encode(i)), k),
        TVal::Raw(b) => e.insert(key, &ItemEnc(b.clone()), k),
        TVal::Record { list: false } => e.insert(key, example_record(), k),
        TVal::Record { list: true } => e.insert(key, &vec![example_record().clone(), example_record().clone()], k),
    }
}

/// Apply one op to the real record.
pub fn apply_op<K: Fam>(e: &mut Enr<K>, op: &Op, keys: &[K]) -> CallRes {
    let ob = |b: Option<Bytes>| b.map(|x| x.to_vec());
    let r = guarded(|| match op {
        Op::SetSeq { seq, k } => map_res(e.set_seq(*seq, &keys[*k]), |_| Ret::Unit),
        Op::Insert { key, val, k } => map_res(insert_tval(e, key, val, &keys[*k]), |p| Ret::PrevRaw(ob(p))),
        Op::InsertRaw { key, raw, k } => map_res(
            e.insert_raw_rlp(key, Bytes::copy_from_slice(raw), &keys[*k]),
            |p| Ret::PrevRaw(ob(p)),
        ),
        Op::SetIp { ip, k } => map_res(e.set_ip(*ip, &keys[*k]), Ret::PrevIp),
        Op::SetPort { which, port, k } => {
            let kk = &keys[*k];
            let r = match which {
                PortKey::Tcp => e.set_tcp4(*port, kk),
                PortKey::Tcp6 => e.set_tcp6(*port, kk),
                PortKey::Udp => e.set_udp4(*port, kk),
                PortKey::Udp6 => e.set_udp6(*port, kk),
            };
            map_res(r, Ret::PrevPort)
        }
        Op::RemovePort { which, k } => {
            let kk = &keys[*k];
            let r = match which {
                PortKey::Tcp => e.remove_tcp(kk),
                PortKey::Tcp6 => e.remove_tcp6(kk),
                PortKey::Udp => e.remove_udp4(kk),
                PortKey::Udp6 => e.remove_udp6(kk),
            };
            map_res(r, |_| Ret::Unit)
        }
        Op::SetClientInfo { name, version, build, k } => map_res(
            e.set_client_info(name.clone(), version.clone(), build.clone(), &keys[*k]),
            |_| Ret::Unit,
        ),
        Op::SetSocket { tcp, addr, k } => {
            let r = if *tcp {
                e.set_tcp_socket(*addr, &keys[*k])
            } else {
                e.set_udp_socket(*addr, &keys[*k])
            };
            map_res(r, |_| Ret::Unit)
        }
        Op::RemoveSocket { tcp, v6, k } => {
            let kk = &keys[*k];
            let r = match (tcp, v6) {
                (true, false) => e.remove_tcp_socket(kk),
                (true, true) => e.remove_tcp6_socket(kk),
                (false, false) => e.remove_udp_socket(kk),
                (false, true) => e.remove_udp6_socket(kk),
            };
            map_res(r, |_| Ret::Unit)
        }
        Op::RemoveKey { key, k } => map_res(e.remove_key(key, &keys[*k]), |_| Ret::Unit),
        Op::RemoveInsert { remove, insert, k } => {
            // the lists are handed over as iterators whose size_hint varies with the call: exact (slices),
            // unknown upper bound, or a huge legal upper bound (as `(0..usize::MAX).map_while(..)` reports)
            let hint = match (remove.len() + 2 * insert.len()) % 3 {
                0 => None,
                1 => Some((0, None)),
                _ => Some((0, Some(usize::MAX))),
            };
            let r = e.remove_insert(
                Hinted(remove.iter(), hint),
                Hinted(insert.iter().map(|(a, b)| (a.clone(), b.as_slice())), hint),
                &keys[*k],
            );
            map_res(r, |(a, b)| {
                Ret::RemIns(a.into_iter().map(ob).collect(), b.into_iter().map(ob).collect())
            })
        }
        Op::SetPublicKey { pk_of, k } => {
            let pk = keys[*pk_of].public();
            map_res(e.set_public_key(&pk, &keys[*k]), |_| Ret::Unit)
        }
        Op::Redecode => {
            let b = alloy_rlp::encode(&*e);
            match Enr::<K>::decode(&mut b.as_slice()) {
                Ok(n) => {
                    *e = n;
                    CallRes::Ok(Ret::Unit)
                }
                Err(er) => CallRes::DecodeErr(format!("{er:?}")),
            }
        }
        Op::CloneSwap => {
            let c = e.clone();
            *e = c;
            CallRes::Ok(Ret::Unit)
        }
        Op::Reparse { prefix } => {
            let t = e.to_base64();
            let t = if *prefix { t } else { t.strip_prefix("enr:").unwrap_or(&t).to_string() };
            match t.parse::<Enr<K>>() {
                Ok(n) => {
                    *e = n;
                    CallRes::Ok(Ret::Unit)
                }
                Err(er) => CallRes::DecodeErr(er),
            }
        }
        Op::CloneFrom => {
            let last = &keys[keys.len() - 1];
            match crate::keys::fault_suspended(|| Enr::<K>::builder().seq(77).tcp4(4242).add_value("zzz", &7u8).build(last)) {
                Ok(mut other) => {
                    other.clone_from(&*e);
                    *e = other;
                    CallRes::Ok(Ret::Unit)
                }
                Err(er) => CallRes::DecodeErr(format!("building the clone_from target failed: {er:?}")),
            }
        }
        Op::Reserde => match serde_json::to_string(&*e) {
            Ok(js) => match serde_json::from_str::<Enr<K>>(&js) {
                Ok(n) => {
                    *e = n;
                    CallRes::Ok(Ret::Unit)
                }
                Err(er) => CallRes::DecodeErr(format!("{er}")),
            },
            Err(er) => CallRes::DecodeErr(format!("serialize: {er}")),
        },
    });
    match r {
        Ok(c) => c,
        Err(p) => CallRes::Panic(p),
    }
}

fn b_tval<K: Fam>(b: &mut enr::Builder<K>, key: &[u8], v: &TVal) {
    match v {
        TVal::Bytes(x) => b.add_value(key, &Bytes::copy_from_slice(x)),
        TVal::U8(x) => b.add_value(key, x),
        TVal::U16(x) => b.add_value(key, x),
        TVal::U64(x) => b.add_value(key, x),
        TVal::Str(s) => b.add_value(key, s),
        TVal::StrList(l) => b.add_value(key, l),
        TVal::BytesList(l) => {
            let l: Vec<Bytes> = l.iter().map(|x| Bytes::copy_from_slice(x)).collect();
            b.add_value(key, &l)
        }
        TVal::Item(i) => b.add_value(key, &ItemEnc(rlp::encode(i))),
        TVal::Raw(x) => b.add_value(key, &ItemEnc(x.clone())),
        TVal::Record { list: false } => b.add_value(key, example_record()),
        TVal::Record { list: true } => b.add_value(key, &vec![example_record().clone(), example_record().clone()]),
    };
}

pub fn run_builder<K: Fam>(calls: &[BCall], key: &K) -> Result<Result<Enr<K>, EnrError>, String> {
    let mut b = Enr::<K>::builder();
    guarded(|| apply_bcalls(&mut b, calls))?;
    guarded(|| b.build(key))
}

/// `first`: build once with this key before the build that counts (builder reuse)
fn apply_bcalls<K: Fam>(b: &mut enr::Builder<K>, calls: &[BCall]) {
    for c in calls {
        match c {
            BCall::Seq(s) => {
                b.seq(*s);
            }
            BCall::AddValue { key, val } => b_tval(b, key, val),
            BCall::AddValueRlp { key, raw } => {
                b.add_value_rlp(key, Bytes::copy_from_slice(raw));
            }
            BCall::Ip(ip) => {
                b.ip(*ip);
            }
            BCall::Ip4(ip) => {
                b.ip4(*ip);
            }
            BCall::Ip6(ip) => {
                b.ip6(*ip);
            }
            BCall::Port { which, port } => {
                match which {
                    PortKey::Tcp => b.tcp4(*port),
                    PortKey::Tcp6 => b.tcp6(*port),
                    PortKey::Udp => b.udp4(*port),
                    PortKey::Udp6 => b.udp6(*port),
                };
            }
            BCall::ClientInfo { name, version, build } => {
                b.client_info(name.clone(), version.clone(), build.clone());
            }
        }
    }
}

/// The same `Builder` value used for two builds: first with `real[first]` (result dropped), then with
/// `real[0]`.  Both keys are handed over FROM THE SAME MEMORY SLOT (`real[0]`, by swapping the keys in and
/// out), as a program does that rotates `node.key` in place: a library must not tell keys apart by address.
pub fn run_builder2<K: Fam>(calls: &[BCall], real: &mut [K], first: usize) -> Result<Result<Enr<K>, EnrError>, String> {
    let mut b = Enr::<K>::builder();
    guarded(|| apply_bcalls(&mut b, calls))?;
    if first < real.len() {
        real.swap(0, first);
        let r = guarded(|| {
            let _ = b.build(&real[0]);
        });
        real.swap(0, first);
        r?;
    }
    guarded(|| b.build(&real[0]))
}

/// Bytes of the harness-signed initial record for `Init::Decoded`.
pub fn decoded_init_bytes(fam: FamId, secret: &[u8; 32], seq: u64, pairs: &[(Vec<u8>, Vec<u8>)]) -> Vec<u8> {
    let mut m: std::collections::BTreeMap<Vec<u8>, Vec<u8>> = pairs.iter().cloned().collect();
    m.insert(b"id".to_vec(), rlp::encode_str(b"v4"));
    m.insert(fam.key_name().to_vec(), rlp::encode_str(&fam.ref_pk(secret)));
    let pairs: Vec<(Vec<u8>, Vec<u8>)> = m.into_iter().collect();
    let content = record::content_from_fields(seq, &pairs);
    let sig = keys::ref_sign(fam, secret, &content, seq % 2 == 1);
    record::record_from_fields(&sig, seq, &pairs)
}

pub struct KeyInfo {
    /// family (for CombinedKey: the variant) this key signs with
    pub fam: FamId,
    pub secret: [u8; 32],
    /// reference-derived public key bytes as stored in a record
    pub pk: Vec<u8>,
}

pub struct StepCx<'a, K: Fam> {
    pub h: &'a History,
    /// 0 = obtaining the initial record; i = ops[i-1]
    pub idx: usize,
    pub op: Option<&'a Op>,
    pub pre: Option<&'a Snap>,
    pub res: &'a CallRes,
    /// state after the call (None only when no record exists: failed init)
    pub post: Option<&'a Snap>,
    pub enr: Option<&'a Enr<K>>,
    pub keys: &'a [KeyInfo],
    pub real_keys: &'a [K],
}
impl<'a, K: Fam> StepCx<'a, K> {
    pub fn signer(&self) -> Option<&KeyInfo> {
        match self.op {
            None => Some(&self.keys[0]),
            Some(o) => o.signer().map(|k| &self.keys[k]),
        }
    }
    pub fn fam(&self) -> FamId {
        self.h.fam
    }
    /// family (CombinedKey variant) of the key that signs this step
    pub fn signer_fam(&self) -> FamId {
        self.signer().map(|k| k.fam).unwrap_or(self.h.fam)
    }
}

pub trait Visitor {
    /// Err(msg) = the property is violated at this step
    fn step<K: Fam>(&mut self, cx: &StepCx<K>) -> Result<(), String>;
}

#[derive(Debug, Default, Clone)]
pub struct HistOutcome {
    pub steps: usize,
    /// why the history ended early, if it did
    pub aborted: Option<String>,
    pub sign_calls: usize,
    pub ok_updates: usize,
    pub failed_updates: usize,
}

fn run_typed<K: Fam, V: Visitor>(h: &History, v: &mut V) -> Result<HistOutcome, String> {
    let mut out = HistOutcome::default();
    let fam_of = |i: usize| -> FamId {
        if h.alt_keys.contains(&i) {
            match h.fam {
                FamId::CombinedSecp => FamId::CombinedEd,
                FamId::CombinedEd => FamId::CombinedSecp,
                f => f,
            }
        } else {
            h.fam
        }
    };
    if h.keys.is_empty() || h.keys.iter().enumerate().any(|(i, s)| !fam_of(i).secret_ok(&s.0)) || h.alt_keys.contains(&0) {
        out.aborted = Some("invalid key list".into());
        return Ok(out);
    }
    let infos: Vec<KeyInfo> = h
        .keys
        .iter()
        .enumerate()
        .map(|(i, s)| KeyInfo { fam: fam_of(i), secret: s.0, pk: fam_of(i).ref_pk(&s.0) })
        .collect();
    let mut real: Vec<K> = h.keys.iter().enumerate().map(|(i, s)| K::make(fam_of(i), &s.0)).collect();
    keys::fault_reset(h.fault_at);
    // initial record
    let (res, enr): (CallRes, Option<Enr<K>>) = match &h.init {
        // `Enr::empty` is the documented shorthand for a builder without calls
        Init::Builder { calls } if calls.is_empty() && h.ops.len() % 2 == 1 => match guarded(|| Enr::<K>::empty(&real[0])) {
            Ok(Ok(e)) => (CallRes::Ok(Ret::Unit), Some(e)),
            Ok(Err(e)) => (CallRes::Err(ek_of(&e), format!("{e:?}")), None),
            Err(p) => (CallRes::Panic(p), None),
        },
        Init::BuilderReuse { calls, first } => match run_builder2::<K>(calls, &mut real, *first) {
            Ok(Ok(e)) => (CallRes::Ok(Ret::Unit), Some(e)),
            Ok(Err(e)) => (CallRes::Err(ek_of(&e), format!("{e:?}")), None),
            Err(p) => (CallRes::Panic(p), None),
        },
        Init::Builder { calls } => match run_builder::<K>(calls, &real[0]) {
            Ok(Ok(e)) => (CallRes::Ok(Ret::Unit), Some(e)),
            Ok(Err(e)) => (CallRes::Err(ek_of(&e), format!("{e:?}")), None),
            Err(p) => (CallRes::Panic(p), None),
        },
        Init::Decoded { seq, pairs } => {
            let bytes = decoded_init_bytes(h.fam, &h.keys[0].0, *seq, pairs);
            match guarded(|| Enr::<K>::decode(&mut bytes.as_slice())) {
                Ok(Ok(e)) => (CallRes::Ok(Ret::Unit), Some(e)),
                Ok(Err(e)) => (CallRes::DecodeErr(format!("{e:?}")), None),
                Err(p) => (CallRes::Panic(p), None),
            }
        }
    };
    let mut cur_snap = enr.as_ref().map(|e| snap(e));
    v.step(&StepCx::<K> {
        h,
        idx: 0,
        op: None,
        pre: None,
        res: &res,
        post: cur_snap.as_ref(),
        enr: enr.as_ref(),
        keys: &infos,
        real_keys: &real,
    })?;
    out.steps = 1;
    let mut enr = match enr {
        Some(e) => e,
        None => {
            out.aborted = Some(format!("no initial record: {res:?}"));
            out.sign_calls = keys::fault_sign_calls();
            return Ok(out);
        }
    };
    for (i, op) in h.ops.iter().enumerate() {
        if let Some(k) = op.signer() {
            if k >= real.len() {
                out.aborted = Some("key index out of range".into());
                break;
            }
        }
        if let Op::SetPublicKey { pk_of, .. } = op {
            if *pk_of >= real.len() {
                out.aborted = Some("key index out of range".into());
                break;
            }
        }
        let pre = cur_snap.take().expect("snapshot");
        let res = apply_op(&mut enr, op, &real);
        let post = snap(&enr);
        if op.is_mutator() {
            match &res {
                CallRes::Ok(_) => out.ok_updates += 1,
                CallRes::Err(..) => out.failed_updates += 1,
                _ => {}
            }
        }
        let r = v.step(&StepCx::<K> {
            h,
            idx: i + 1,
            op: Some(op),
            pre: Some(&pre),
            res: &res,
            post: Some(&post),
            enr: Some(&enr),
            keys: &infos,
            real_keys: &real,
        });
        out.steps += 1;
        r?;
        if let CallRes::Panic(p) = &res {
            out.aborted = Some(format!("mutator panicked: {p}"));
            break;
        }
        cur_snap = Some(post);
    }
    out.sign_calls = keys::fault_sign_calls();
    Ok(out)
}

/// Run a history under its family.  With `fault_at` (or `force_fault`) the family is wrapped in
/// `FaultKey`.
pub fn run_history<V: Visitor>(h: &History, force_fault: bool, v: &mut V) -> Result<HistOutcome, String> {
    let fault = force_fault || h.fault_at.is_some();
    macro_rules! go {
        ($t:ty) => {
            if fault {
                run_typed::<FaultKey<$t>, V>(h, v)
            } else {
                run_typed::<$t, V>(h, v)
            }
        };
    }
    match h.fam {
        FamId::K256 => go!(crate::keys::K256Key),
        FamId::Libsecp => go!(crate::keys::LibsecpKey),
        FamId::Ed => go!(crate::keys::EdKey),
        FamId::CombinedSecp | FamId::CombinedEd => go!(crate::keys::CombKey),
        FamId::Var | FamId::Wide => go!(VarKey),
        FamId::Tiny | FamId::Mid | FamId::Nano | FamId::Big | FamId::Clash | FamId::Null => go!(crate::keys::TinyKey),
    }
}

// ---------------------------------------------------------------------------------------------
// blind mode: apply a history WITHOUT observing the record in between (no accessor, encoder or
// formatter is called), then observe "cold".  Observation itself can hide state the library caches
// lazily; a blind run sees what a caller sees who only applies updates.

#[derive(Clone, Debug)]
pub struct Cold {
    /// text form, size and encoding taken FIRST (in this order, or encoding first), before any other accessor
    pub text: String,
    pub size: usize,
    pub enc: Vec<u8>,
    pub snap: Snap,
}

fn run_blind_typed<K: Fam>(h: &History, upto: usize, order: u8) -> Result<Option<(Vec<CallRes>, Cold)>, String> {
    let fam_of = |i: usize| -> FamId {
        if h.alt_keys.contains(&i) {
            match h.fam {
                FamId::CombinedSecp => FamId::CombinedEd,
                FamId::CombinedEd => FamId::CombinedSecp,
                f => f,
            }
        } else {
            h.fam
        }
    };
    if h.keys.is_empty() || h.keys.iter().enumerate().any(|(i, s)| !fam_of(i).secret_ok(&s.0)) || h.alt_keys.contains(&0) {
        return Ok(None);
    }
    let mut real: Vec<K> = h.keys.iter().enumerate().map(|(i, s)| K::make(fam_of(i), &s.0)).collect();
    keys::fault_reset(h.fault_at);
    let enr: Option<Enr<K>> = match &h.init {
        Init::Builder { calls } if calls.is_empty() && h.ops.len() % 2 == 1 => guarded(|| Enr::<K>::empty(&real[0])).ok().and_then(|r| r.ok()),
        Init::BuilderReuse { calls, first } => run_builder2::<K>(calls, &mut real, *first).ok().and_then(|r| r.ok()),
        Init::Builder { calls } => run_builder::<K>(calls, &real[0]).ok().and_then(|r| r.ok()),
        Init::Decoded { seq, pairs } => {
            let bytes = decoded_init_bytes(h.fam, &h.keys[0].0, *seq, pairs);
            guarded(|| Enr::<K>::decode(&mut bytes.as_slice())).ok().and_then(|r| r.ok())
        }
    };
    let mut enr = match enr {
        Some(e) => e,
        None => return Ok(None),
    };
    let mut results = Vec::new();
    for op in h.ops.iter().take(upto) {
        if let Some(k) = op.signer() {
            if k >= real.len() {
                return Ok(None);
            }
        }
        if let Op::SetPublicKey { pk_of, .. } = op {
            if *pk_of >= real.len() {
                return Ok(None);
            }
        }
        // Redecode observes by construction (it encodes); keep it, it is part of the history
        let r = apply_op(&mut enr, op, &real);
        let stop = matches!(r, CallRes::Panic(_));
        results.push(r);
        if stop {
            return Ok(None);
        }
    }
    let cold = guarded(|| {
        let (text, size, enc);
        match order % 3 {
            0 => {
                enc = alloy_rlp::encode(&enr);
                size = enr.size();
                text = enr.to_base64();
            }
            1 => {
                text = enr.to_base64();
                size = enr.size();
                enc = alloy_rlp::encode(&enr);
            }
            _ => {
                // identity-related accessors first
                let _ = enr.node_id();
                let _ = guarded(|| enr.verify());
                let _ = guarded(|| K::pk_bytes(&enr.public_key()));
                let _ = enr.iter().count();
                size = enr.size();
                text = format!("{enr}");
                enc = alloy_rlp::encode(&enr);
            }
        }
        Cold { text, size, enc, snap: snap(&enr) }
    })
    .map_err(|p| format!("observing the record after a blind run panicked: {p}"))?;
    Ok(Some((results, cold)))
}

/// Blind run of the first `upto` operations of `h`, then a cold observation.  None = the history
/// cannot be run (invalid keys, no initial record, a panic: other checks deal with those).
pub fn run_blind(h: &History, upto: usize, order: u8) -> Result<Option<(Vec<CallRes>, Cold)>, String> {
    match h.fam {
        FamId::K256 => run_blind_typed::<crate::keys::K256Key>(h, upto, order),
        FamId::Libsecp => run_blind_typed::<crate::keys::LibsecpKey>(h, upto, order),
        FamId::Ed => run_blind_typed::<crate::keys::EdKey>(h, upto, order),
        FamId::CombinedSecp | FamId::CombinedEd => run_blind_typed::<crate::keys::CombKey>(h, upto, order),
        FamId::Var | FamId::Wide => run_blind_typed::<VarKey>(h, upto, order),
        FamId::Tiny | FamId::Mid | FamId::Nano | FamId::Big | FamId::Clash | FamId::Null => run_blind_typed::<crate::keys::TinyKey>(h, upto, order),
    }
}
