//! Wire generator: valid records built from a spec and signed by the independent signer,
//! structural mutations re-signed over plausible reconstructions, and unsigned tampers.
use crate::choices::Choices;
use crate::keys::pool;
use crate::refmodel::crypto;
use crate::refmodel::record::{content_bytes, Scheme};
use crate::refmodel::rlp::{self, BadFrame, Item};
use std::collections::BTreeMap;

/// A record as a list of raw top-level element encodings (so that any of them can be malformed).
#[derive(Clone, Debug)]
pub struct Draft {
    pub scheme: Scheme,
    pub secret: [u8; 32],
    /// sign with k256 called directly instead of libsecp256k1
    pub alt_signer: bool,
    pub seq_raw: Vec<u8>,
    /// (raw key element, raw value element or None when the value is missing)
    pub kv: Vec<(Vec<u8>, Option<Vec<u8>>)>,
    pub has_custom: bool,
    /// use this signature instead of signing (weak ed25519 keys whose secret nobody knows)
    pub forced_sig: Option<Vec<u8>>,
}

pub const SEQ_BOUNDARY: [u64; 18] = [
    0,
    1,
    2,
    127,
    128,
    255,
    256,
    65535,
    65536,
    (1 << 32) - 1,
    1 << 32,
    (1 << 56) - 1,
    1 << 56,
    1 << 63,
    u64::MAX - 1,
    u64::MAX,
    (1 << 24) - 1,
    (1 << 40) - 1,
];

pub const NEIGHBOUR_KEYS: [&[u8]; 24] = [
    b"ID",
    b"Id",
    b"IP",
    b"TCP",
    b"Udp",
    b"SECP256K1",
    b"Secp256k1",
    b"ED25519",
    b"i",
    b"ic",
    b"id\0",
    b"ie",
    b"ip5",
    b"ip7",
    b"secp256k0",
    b"secp256k1\0",
    b"secp256k2",
    b"tcp5",
    b"tcp7",
    b"udp5",
    b"udp60",
    b"zz",
    b"ed25518",
    b"ed2551a",
];
pub const KNOWN_KEYS: [&[u8]; 9] = [b"eth2", b"attnets", b"syncnets", b"eth", b"client", b"quic", b"snap", b"les", b"opstack"];
pub const RESERVED: [&[u8]; 9] = [b"id", b"ip", b"ip6", b"tcp", b"tcp6", b"udp", b"udp6", b"secp256k1", b"ed25519"];

pub fn gen_seq(c: &mut Choices) -> u64 {
    match c.below(4) {
        0 | 1 => *c.pick(&SEQ_BOUNDARY),
        2 => {
            let n = c.range(0, 8);
            let v = c.u64();
            if n == 0 {
                0
            } else if n == 8 {
                v
            } else {
                v >> (64 - 8 * n)
            }
        }
        _ => c.u8() as u64,
    }
}

/// A key derived from a reserved key by one small edit (never a reserved key itself).
pub fn derived_neighbour(c: &mut Choices) -> Vec<u8> {
    let r: &[u8] = *c.pick(&RESERVED[..]);
    let mut k = r.to_vec();
    match c.below(8) {
        0 | 1 => k.push(*c.pick(b"6640s_-\0 1")),
        2 => {
            k.pop();
        }
        3 => {
            let l = k.len() - 1;
            k[l] = k[l].wrapping_add(if c.bool() { 1 } else { 0xff });
        }
        4 => k.insert(0, *c.pick(b"6x_ \0")),
        5 => k.make_ascii_uppercase(),
        6 => k.extend_from_slice(r),
        _ => {
            let i = c.below(k.len());
            k[i] ^= 0x20;
        }
    }
    if RESERVED.iter().any(|x| *x == k.as_slice()) {
        k.push(b'6');
    }
    k
}

pub fn gen_custom_key(c: &mut Choices) -> Vec<u8> {
    match c.below(8) {
        0 => c.pick(&KNOWN_KEYS).to_vec(),
        1 => c.pick(&NEIGHBOUR_KEYS).to_vec(),
        6 => derived_neighbour(c),
        7 => {
            // keys whose RLP string header changes form (55/56 bytes) and one long key
            let n = *c.pick(&[54usize, 55, 56, 57, 60, 120]);
            let mut k = vec![b'k'; n];
            k[0] = *c.pick(b"akz");
            k
        }
        2 => vec![*c.pick(&[0x00u8, 0x7f, 0x80, 0xff, b'a', b'z'])],
        3 => vec![],
        _ => {
            let n = c.range(1, 10);
            c.bytes(n)
        }
    }
}

pub fn gen_str_value(c: &mut Choices) -> Vec<u8> {
    match c.below(10) {
        0 => vec![],
        1 => vec![c.u8() & 0x7f],
        2 => vec![c.u8() | 0x80],
        3 => {
            let n = c.range(2, 54);
            c.bytes(n)
        }
        4 => c.bytes(55),
        5 => c.bytes(56),
        6 => c.bytes(57),
        7 => {
            let n = c.range(90, 110);
            c.bytes(n)
        }
        _ => {
            let n = c.range(1, 20);
            c.bytes(n)
        }
    }
}

pub fn gen_item(c: &mut Choices, depth: usize) -> Item {
    if depth >= 3 && c.chance(8) {
        // a deeply nested list (nothing in RLP or EIP-778 bounds the depth): 17..=60 levels around a small core
        let levels = *c.pick(&[15usize, 16, 17, 18, 19, 33, 60]);
        let mut it = if c.bool() { Item::List(vec![]) } else { Item::Str(vec![c.u8()]) };
        for _ in 0..levels {
            it = Item::List(vec![it]);
        }
        return it;
    }
    if depth == 0 || !c.chance(90) {
        match c.below(4) {
            0 => Item::uint(gen_seq(c)),
            _ => Item::Str(gen_str_value(c)),
        }
    } else {
        let n = c.below(4);
        Item::List((0..n).map(|_| gen_item(c, depth - 1)).collect())
    }
}

pub fn gen_port(c: &mut Choices) -> u16 {
    match c.below(3) {
        0 => *c.pick(&[0u16, 1, 127, 128, 255, 256, 65535, 30303, 9000]),
        _ => c.u16(),
    }
}

pub fn gen_ip4(c: &mut Choices) -> [u8; 4] {
    match c.below(4) {
        0 => *c.pick(&[[0, 0, 0, 0], [255, 255, 255, 255], [127, 0, 0, 1], [10, 0, 0, 0], [0, 0, 0, 1], [192, 168, 0, 1]]),
        _ => [c.u8(), c.u8(), c.u8(), c.u8()],
    }
}

pub fn gen_ip6(c: &mut Choices) -> [u8; 16] {
    let mut a = [0u8; 16];
    match c.below(7) {
        0 => {}
        1 => a[15] = 1,
        2 => {
            a[0] = 0xfe;
            a[1] = 0x80;
            a[15] = c.u8();
        }
        3 => {
            // IPv4-mapped ::ffff:a.b.c.d
            a[10] = 0xff;
            a[11] = 0xff;
            a[12..].copy_from_slice(&gen_ip4(c));
        }
        4 => {
            // other embeddings of an IPv4 address: IPv4-compatible, NAT64, 6to4
            let v4 = gen_ip4(c);
            match c.below(3) {
                0 => a[12..].copy_from_slice(&v4),
                1 => {
                    a[0] = 0x00;
                    a[1] = 0x64;
                    a[2] = 0xff;
                    a[3] = 0x9b;
                    a[12..].copy_from_slice(&v4);
                }
                _ => {
                    a[0] = 0x20;
                    a[1] = 0x02;
                    a[2..6].copy_from_slice(&v4);
                }
            }
        }
        _ => {
            for x in a.iter_mut() {
                *x = c.u8();
            }
        }
    }
    a
}

pub fn pick_secret(c: &mut Choices, scheme: Scheme) -> [u8; 32] {
    let p = pool().of(scheme);
    if c.chance(40) {
        let s = c.arr32();
        match scheme {
            Scheme::Secp if !crypto::secp_secret_valid(&s) => p[0],
            _ => s,
        }
    } else {
        *c.pick(p)
    }
}

pub fn ref_pk(scheme: Scheme, secret: &[u8; 32]) -> Vec<u8> {
    match scheme {
        Scheme::Secp => crypto::secp_pk_from_secret(secret).expect("valid").to_vec(),
        Scheme::Ed => crypto::ed_pk_from_seed(secret).to_vec(),
    }
}

fn k(e: &[u8]) -> Vec<u8> {
    rlp::encode_str(e)
}

/// payload of a raw key element if it is a canonical string
fn key_payload(raw: &[u8]) -> Option<Vec<u8>> {
    match rlp::decode_exact(raw) {
        Ok(Item::Str(s)) => Some(s),
        _ => None,
    }
}

impl Draft {
    pub fn content_payload(&self) -> Vec<u8> {
        let mut p = self.seq_raw.clone();
        for (kr, v) in &self.kv {
            p.extend_from_slice(kr);
            if let Some(v) = v {
                p.extend_from_slice(v);
            }
        }
        p
    }
    pub fn content(&self) -> Vec<u8> {
        content_bytes(&self.content_payload())
    }
    pub fn find(&self, key: &[u8]) -> Option<usize> {
        self.kv.iter().position(|(kr, _)| key_payload(kr).as_deref() == Some(key))
    }
    pub fn set(&mut self, key: &[u8], raw_value: Vec<u8>) {
        match self.find(key) {
            Some(i) => self.kv[i].1 = Some(raw_value),
            None => {
                self.kv.push((k(key), Some(raw_value)));
                self.sort();
            }
        }
    }
    pub fn remove(&mut self, key: &[u8]) {
        if let Some(i) = self.find(key) {
            self.kv.remove(i);
        }
    }
    pub fn sort(&mut self) {
        self.kv.sort_by(|a, b| key_payload(&a.0).cmp(&key_payload(&b.0)));
    }
    /// total encoded size with a signature of `siglen` bytes
    pub fn size_with_sig(&self, siglen: usize) -> usize {
        let sig_elem = rlp::encode_str(&vec![0xaa; siglen]).len();
        let pl = sig_elem + self.content_payload().len();
        let mut o = Vec::new();
        rlp::enc_list_payload(&mut o, &vec![0u8; pl]);
        o.len()
    }
}

/// Generate the spec of a valid record.
pub fn gen_valid_draft(c: &mut Choices) -> Draft {
    let sk = c.below(10);
    let scheme = if sk < 7 { Scheme::Secp } else { Scheme::Ed };
    let both = sk == 9 || sk == 6;
    let secret = pick_secret(c, scheme);
    let seq = gen_seq(c);
    let mut m: BTreeMap<Vec<u8>, Vec<u8>> = BTreeMap::new();
    let ncustom = if c.chance(150) { c.range(0, 4) } else { 0 };
    let mut has_custom = false;
    for j in 0..ncustom {
        let key = if j == 0 && c.chance(40) { vec![] } else { gen_custom_key(c) };
        if RESERVED.iter().any(|r| *r == key.as_slice()) {
            continue;
        }
        let it = gen_item(c, 3);
        m.insert(key, rlp::encode(&it));
        has_custom = true;
    }
    if c.bool() {
        m.insert(b"ip".to_vec(), rlp::encode_str(&gen_ip4(c)));
    }
    if c.bool() {
        m.insert(b"ip6".to_vec(), rlp::encode_str(&gen_ip6(c)));
    }
    for pk in [&b"tcp"[..], b"tcp6", b"udp", b"udp6"] {
        if c.bool() {
            m.insert(pk.to_vec(), rlp::encode_uint(gen_port(c) as u64));
        }
    }
    if c.chance(40) {
        // EIP-7636 client entry, sometimes an odd shape
        let it = match c.below(4) {
            0 => Item::List(vec![Item::s(b"lighthouse"), Item::s(b"v5.1.0")]),
            1 => Item::List(vec![Item::s(b"n"), Item::s(b"v"), Item::s(b"build-123")]),
            2 => Item::List(vec![Item::s(b"only-one")]),
            _ => Item::s(b"not-a-list"),
        };
        m.insert(b"client".to_vec(), rlp::encode(&it));
        has_custom = true;
    }
    m.insert(b"id".to_vec(), rlp::encode_str(b"v4"));
    m.insert(scheme.key_name().to_vec(), rlp::encode_str(&ref_pk(scheme, &secret)));
    if both {
        // an entry for the other scheme too
        let other = match scheme {
            Scheme::Secp => Scheme::Ed,
            Scheme::Ed => Scheme::Secp,
        };
        let val = match c.below(4) {
            0 => {
                let n = c.range(0, 40);
                c.bytes(n)
            } // junk string
            _ => {
                let s2 = pick_secret(c, other);
                ref_pk(other, &s2)
            }
        };
        m.insert(other.key_name().to_vec(), rlp::encode_str(&val));
    }
    let mut d = Draft {
        scheme,
        secret,
        alt_signer: c.chance(80),
        seq_raw: rlp::encode_uint(seq),
        kv: m.into_iter().map(|(kk, v)| (k(&kk), Some(v))).collect(),
        has_custom,
        forced_sig: None,
    };
    if scheme == Scheme::Ed && !both && c.chance(16) {
        // a small-order ed25519 public key (the neutral element, in canonical and non-canonical
        // encodings): with the non-strict verification used for ENRs the signature (R = neutral, s = 0)
        // is valid for every content
        let mut pk = [0u8; 32];
        match c.below(3) {
            0 => pk[0] = 1,
            1 => {
                pk = [0xff; 32];
                pk[0] = 0xee;
                pk[31] = 0x7f;
            }
            _ => {
                pk[0] = 1;
                pk[31] = 0x80;
            }
        }
        d.set(b"ed25519", rlp::encode_str(&pk));
        let mut sig = vec![0u8; 64];
        sig[0] = 1;
        d.forced_sig = Some(sig);
    }
    // boundary sizes by construction
    if c.chance(40) {
        let target = 299 + c.below(5);
        solve_size(&mut d, target, c);
    } else if d.size_with_sig(64) > 300 && !c.chance(25) {
        // keep most valid specs within the limit: drop custom entries, largest first
        while d.size_with_sig(64) > 300 {
            let mut best: Option<(usize, usize)> = None;
            for (i, (kr, v)) in d.kv.iter().enumerate() {
                let kp = key_payload(kr).unwrap_or_default();
                if RESERVED.iter().any(|r| *r == kp.as_slice()) {
                    continue;
                }
                let l = v.as_ref().map(|v| v.len()).unwrap_or(0);
                if best.map(|b| l > b.1).unwrap_or(true) {
                    best = Some((i, l));
                }
            }
            match best {
                Some((i, _)) => {
                    d.kv.remove(i);
                }
                None => break,
            }
        }
    }
    d
}

/// Adjust (or add) a filler string value so that the signed record is exactly `target` bytes.
pub fn solve_size(d: &mut Draft, target: usize, c: &mut Choices) {
    let key: Vec<u8> = c.pick(&[&b"zz"[..], b"filler", b"a", b"eth2"]).to_vec();
    let fill = c.u8() | 0x80;
    for _ in 0..6 {
        let cur = d.size_with_sig(64);
        if cur == target {
            return;
        }
        let have = d
            .find(&key)
            .and_then(|i| d.kv[i].1.clone())
            .and_then(|raw| rlp::decode_exact(&raw).ok())
            .and_then(|it| it.as_str().map(|s| s.len()));
        let cur_len = have.unwrap_or(0) as isize;
        let mut want = cur_len + target as isize - cur as isize;
        if have.is_none() {
            // adding the key costs its own bytes too
            want -= (k(&key).len() + 1) as isize;
        }
        if want < 0 {
            if have.is_some() {
                d.remove(&key);
            } else {
                // shrink something else: drop the largest custom value
                let mut best: Option<(usize, usize)> = None;
                for (i, (kr, v)) in d.kv.iter().enumerate() {
                    let kp = key_payload(kr).unwrap_or_default();
                    if RESERVED.iter().any(|r| *r == kp.as_slice()) {
                        continue;
                    }
                    let l = v.as_ref().map(|v| v.len()).unwrap_or(0);
                    if best.map(|b| l > b.1).unwrap_or(true) {
                        best = Some((i, l));
                    }
                }
                match best {
                    Some((i, _)) => {
                        d.kv.remove(i);
                    }
                    None => return,
                }
            }
            continue;
        }
        d.set(&key, rlp::encode_str(&vec![fill; want as usize]));
        d.has_custom = true;
    }
}

// ---------------------------------------------------------------------------------------------
// signing

#[derive(Clone, Copy, Debug, PartialEq, Eq)]
pub enum SignOver {
    /// the literal element sequence
    Literal,
    /// what a lenient decoder storing a sorted map would reconstruct (duplicates: last wins),
    /// integers and strings re-encoded canonically
    MapLastCanon,
    /// same with the first duplicate winning
    MapFirstCanon,
    /// sorted map, raw values kept as they are
    MapLastRaw,
    /// literal order, every element canonically re-encoded
    LiteralCanon,
}
pub const SIGN_VARIANTS: [SignOver; 5] = [
    SignOver::Literal,
    SignOver::MapLastCanon,
    SignOver::MapFirstCanon,
    SignOver::MapLastRaw,
    SignOver::LiteralCanon,
];

/// lenient single-item decode: accepts non-canonical framing; returns (item, consumed)
fn lenient_item(buf: &[u8]) -> Option<(Item, usize)> {
    let b0 = *buf.first()?;
    let (list, hl, pl) = match b0 {
        0x00..=0x7f => return Some((Item::Str(vec![b0]), 1)),
        0x80..=0xb7 => (false, 1, (b0 - 0x80) as usize),
        0xb8..=0xbf => {
            let n = (b0 - 0xb7) as usize;
            if buf.len() < 1 + n || n > 4 {
                return None;
            }
            let mut l = 0usize;
            for x in &buf[1..1 + n] {
                l = l << 8 | *x as usize;
            }
            (false, 1 + n, l)
        }
        0xc0..=0xf7 => (true, 1, (b0 - 0xc0) as usize),
        _ => {
            let n = (b0 - 0xf7) as usize;
            if buf.len() < 1 + n || n > 4 {
                return None;
            }
            let mut l = 0usize;
            for x in &buf[1..1 + n] {
                l = l << 8 | *x as usize;
            }
            (true, 1 + n, l)
        }
    };
    if buf.len() < hl + pl {
        return None;
    }
    let p = &buf[hl..hl + pl];
    if !list {
        return Some((Item::Str(p.to_vec()), hl + pl));
    }
    let mut items = Vec::new();
    let mut off = 0;
    while off < p.len() {
        let (it, n) = lenient_item(&p[off..])?;
        items.push(it);
        off += n;
    }
    Some((Item::List(items), hl + pl))
}

fn strip_zeros(b: &[u8]) -> Vec<u8> {
    let s = b.iter().take_while(|x| **x == 0).count();
    b[s..].to_vec()
}

fn canon_elem(raw: &[u8], as_int: bool) -> Vec<u8> {
    match lenient_item(raw) {
        Some((Item::Str(s), _)) => {
            if as_int {
                rlp::encode_str(&strip_zeros(&s))
            } else {
                rlp::encode_str(&s)
            }
        }
        Some((it, _)) => rlp::encode(&it),
        None => raw.to_vec(),
    }
}

fn is_port_key(kp: &[u8]) -> bool {
    matches!(kp, b"tcp" | b"tcp6" | b"udp" | b"udp6")
}

/// The content bytes a (possibly lenient) decoder would verify against.
pub fn content_for(d: &Draft, over: SignOver) -> Vec<u8> {
    match over {
        SignOver::Literal => d.content(),
        SignOver::LiteralCanon => {
            let mut p = canon_elem(&d.seq_raw, true);
            for (kr, v) in &d.kv {
                let kc = canon_elem(kr, false);
                let kp = key_payload(&kc).unwrap_or_default();
                p.extend_from_slice(&kc);
                if let Some(v) = v {
                    p.extend_from_slice(&canon_elem(v, is_port_key(&kp)));
                }
            }
            content_bytes(&p)
        }
        SignOver::MapLastCanon | SignOver::MapFirstCanon | SignOver::MapLastRaw => {
            let canon = over != SignOver::MapLastRaw;
            let mut m: BTreeMap<Vec<u8>, Vec<u8>> = BTreeMap::new();
            for (kr, v) in &d.kv {
                let kp = match lenient_item(kr) {
                    Some((Item::Str(s), _)) => s,
                    _ => continue,
                };
                let v = match v {
                    Some(v) => {
                        if canon {
                            canon_elem(v, is_port_key(&kp))
                        } else {
                            v.clone()
                        }
                    }
                    None => continue,
                };
                if over == SignOver::MapFirstCanon && m.contains_key(&kp) {
                    continue;
                }
                m.insert(kp, v);
            }
            let mut p = if canon { canon_elem(&d.seq_raw, true) } else { d.seq_raw.clone() };
            for (kk, v) in m {
                rlp::enc_str(&mut p, &kk);
                p.extend_from_slice(&v);
            }
            content_bytes(&p)
        }
    }
}

pub fn sign_content(scheme: Scheme, secret: &[u8; 32], alt: bool, content: &[u8]) -> Vec<u8> {
    match scheme {
        Scheme::Secp => {
            if alt {
                crypto::secp_sign_k256(secret, content).to_vec()
            } else {
                crypto::secp_sign(secret, content).to_vec()
            }
        }
        Scheme::Ed => crypto::ed_sign(secret, content).to_vec(),
    }
}

pub fn sign_draft(d: &Draft, over: SignOver) -> Vec<u8> {
    if let Some(s) = &d.forced_sig {
        return s.clone();
    }
    sign_content(d.scheme, &d.secret, d.alt_signer, &content_for(d, over))
}

#[derive(Clone, Copy, Debug, PartialEq, Eq)]
pub enum Outer {
    Canonical,
    /// string header instead of a list header
    AsString,
    /// non-canonical list header (leading-zero length / long form for a short payload)
    BadHeader,
    /// header declares one byte more than present (input is a strict prefix of an item)
    DeclaredPlusOne,
    /// header declares one byte less and the final byte is dropped: last element overruns the list
    InnerOverrun,
}

pub fn assemble_with(sig_elem: &[u8], d: &Draft, outer: Outer) -> Vec<u8> {
    let mut p = sig_elem.to_vec();
    p.extend_from_slice(&d.content_payload());
    let mut out = Vec::new();
    match outer {
        Outer::Canonical => rlp::enc_list_payload(&mut out, &p),
        Outer::AsString => {
            let mut h = Vec::new();
            rlp::enc_list_payload(&mut h, &p);
            // turn the list header into the corresponding string header
            if h[0] >= 0xf8 {
                h[0] = h[0] - 0xf7 + 0xb7;
            } else {
                h[0] = h[0] - 0xc0 + 0x80;
            }
            out = h;
        }
        Outer::BadHeader => {
            if p.len() < 256 {
                rlp::enc_list_bad(&mut out, &p, BadFrame::LeadingZeroLen);
            } else {
                out.push(0xfa);
                out.push(0);
                out.push((p.len() >> 8) as u8);
                out.push(p.len() as u8);
                out.extend_from_slice(&p);
            }
        }
        Outer::DeclaredPlusOne => {
            let mut q = p.clone();
            q.push(0);
            rlp::enc_list_payload(&mut out, &q);
            out.pop();
        }
        Outer::InnerOverrun => {
            if p.len() > 1 {
                let q = &p[..p.len() - 1];
                rlp::enc_list_payload(&mut out, q);
            } else {
                rlp::enc_list_payload(&mut out, &p);
            }
        }
    }
    out
}

pub fn assemble(sig: &[u8], d: &Draft, outer: Outer) -> Vec<u8> {
    assemble_with(&rlp::encode_str(sig), d, outer)
}

pub fn valid_bytes(d: &Draft) -> Vec<u8> {
    assemble(&sign_draft(d, SignOver::Literal), d, Outer::Canonical)
}

// ---------------------------------------------------------------------------------------------
// structural mutations (re-signed afterwards)

pub const STRUCT_MUTATIONS: [&str; 41] = [
    "dangling-tail",
    "unsorted-swap",
    "duplicate-key",
    "missing-last-value",
    "missing-mid-value",
    "id-missing",
    "id-other",
    "id-list",
    "pk-missing",
    "pk-len",
    "pk-tag",
    "pk-offcurve",
    "pk-xgep",
    "pk-list",
    "pk-65",
    "ip-len",
    "ip-list",
    "ip6-len",
    "ip6-list",
    "port-leading-zero",
    "port-3bytes",
    "port-0x00",
    "port-8105",
    "port-list",
    "seq-leading-zero",
    "seq-9bytes",
    "seq-0x00",
    "seq-list",
    "sig-list",
    "key-list",
    "frame-noncanonical",
    "nested-list-noncanonical",
    "outer-string",
    "outer-bad-header",
    "outer-plus-one",
    "inner-overrun",
    "empty-list",
    "tiny-list",
    "size-boundary",
    "other-scheme-entry-list",
    "valid",
];

/// Result of one structural mutation: the draft, how to frame the signature element and the list.
pub struct Mutated {
    pub d: Draft,
    pub outer: Outer,
    /// raw signature element override (None = canonical string of the computed signature)
    pub sig_as_list: bool,
    /// complete override of the bytes (empty / tiny lists)
    pub whole: Option<Vec<u8>>,
    pub label: &'static str,
}

fn ensure_port(d: &mut Draft, c: &mut Choices) -> Vec<u8> {
    let key: &[u8] = *c.pick(&[&b"tcp"[..], b"tcp6", b"udp", b"udp6"]);
    if d.find(key).is_none() {
        d.set(key, rlp::encode_uint(30303));
    }
    key.to_vec()
}

pub fn mutate(mut d: Draft, which: &'static str, c: &mut Choices) -> Mutated {
    let mut outer = Outer::Canonical;
    let mut sig_as_list = false;
    let mut whole = None;
    let pkname = d.scheme.key_name().to_vec();
    match which {
        "unsorted-swap" => {
            if d.kv.len() >= 2 {
                let i = c.below(d.kv.len() - 1);
                d.kv.swap(i, i + 1);
            }
        }
        "duplicate-key" => {
            let i = c.below(d.kv.len());
            let mut dup = d.kv[i].clone();
            if c.bool() {
                // same key, different value (keep the type plausible: flip the last payload byte)
                if let Some(v) = dup.1.as_mut() {
                    if v.len() > 1 {
                        let n = v.len();
                        v[n - 1] ^= 1;
                    }
                }
            }
            if c.bool() {
                d.kv.insert(i + 1, dup);
            } else {
                d.kv.insert(i, dup);
            }
        }
        "missing-last-value" => {
            let n = d.kv.len();
            d.kv[n - 1].1 = None;
        }
        "dangling-tail" => {
            // 1..3 stray bytes after the last complete pair (a lone key, an empty list, a header that
            // overruns the list); lenient reconstructions sign the content without them
            let tail: Vec<u8> = match c.below(8) {
                0 => vec![c.u8() & 0x7f],
                1 => vec![0x80],
                2 => vec![0xc0],
                3 => vec![0x83],
                4 => vec![0xb8],
                5 => vec![0xf8],
                6 => vec![0x81, 0x80 | c.u8()],
                _ => vec![0x82, c.u8(), c.u8()],
            };
            d.kv.push((tail, None));
        }
        "missing-mid-value" => {
            let i = c.below(d.kv.len());
            d.kv[i].1 = None;
        }
        "id-missing" => d.remove(b"id"),
        "id-other" => {
            let v: &[u8] = *c.pick(&[&b"v5"[..], b"", b"v4\0", b"V4", b"v", b"v44", b"\0v4"]);
            d.set(b"id", rlp::encode_str(v));
        }
        "id-list" => d.set(b"id", rlp::encode(&Item::List(vec![Item::s(b"v4")]))),
        "pk-missing" => d.remove(&pkname),
        "pk-len" => {
            let mut pk = ref_pk(d.scheme, &d.secret);
            match c.below(6) {
                0 => {
                    pk.pop();
                }
                1 => pk.push(0),
                2 => pk.insert(0, 2),
                // other renderings of the SAME key that are not the record form: bare x||y coordinates
                // (64 bytes), x alone (32), hybrid form (65, tag 06/07); for ed25519 the key twice (64)
                3 if d.scheme == Scheme::Secp => pk = crypto::secp_uncompressed(&pk).unwrap().to_vec(),
                4 if d.scheme == Scheme::Secp => pk = pk[1..].to_vec(),
                3 | 4 => pk = [&pk[..], &pk[..]].concat(),
                _ => {
                    if d.scheme == Scheme::Secp {
                        let u = crypto::secp_uncompressed(&pk).unwrap();
                        pk = [&[0x06 | (u[63] & 1)][..], &u[..]].concat();
                    } else {
                        pk.insert(0, 0x20);
                    }
                }
            }
            d.set(&pkname, rlp::encode_str(&pk));
        }
        "pk-tag" => {
            let mut pk = ref_pk(d.scheme, &d.secret);
            if d.scheme == Scheme::Secp {
                pk[0] = *c.pick(&[0u8, 4, 5, 6, 7, 1, 0x82]);
            } else {
                pk[31] ^= 0x80; // flips the sign bit: another (or no) point
            }
            d.set(&pkname, rlp::encode_str(&pk));
        }
        "pk-offcurve" => {
            let mut pk = ref_pk(d.scheme, &d.secret);
            // search a nearby x that is not on the curve
            for delta in 1..=255u8 {
                let mut t = pk.clone();
                let n = t.len();
                let idx = if d.scheme == Scheme::Secp { n - 1 } else { 0 };
                t[idx] = t[idx].wrapping_add(delta);
                let ok = match d.scheme {
                    Scheme::Secp => crypto::secp_pk_valid(&t),
                    Scheme::Ed => crypto::ed_pk_valid(&t),
                };
                if !ok {
                    pk = t;
                    break;
                }
            }
            d.set(&pkname, rlp::encode_str(&pk));
        }
        "pk-xgep" => {
            let pk = if d.scheme == Scheme::Secp {
                // x = p + small (p = 2^256 - 2^32 - 977): not a field element
                let mut x = [0xffu8; 32];
                x[28] = 0xff;
                x[27] = 0xfe;
                x[31] = 0x2f + c.below(8) as u8;
                x[30] = 0xfc;
                let mut v = vec![2 + (c.u8() & 1)];
                v.extend_from_slice(&x);
                v
            } else {
                // y >= 2^255 - 19 (non-canonical y)
                let mut y = [0xffu8; 32];
                y[31] = 0x7f;
                y[0] = 0xed + c.below(18) as u8;
                y.to_vec()
            };
            d.set(&pkname, rlp::encode_str(&pk));
        }
        "pk-list" => {
            let pk = ref_pk(d.scheme, &d.secret);
            d.set(&pkname, rlp::encode(&Item::List(vec![Item::Str(pk)])));
        }
        "pk-65" => {
            if d.scheme == Scheme::Secp {
                let pk = ref_pk(d.scheme, &d.secret);
                let u = crypto::secp_uncompressed(&pk).unwrap();
                let mut v = vec![4u8];
                v.extend_from_slice(&u);
                d.set(&pkname, rlp::encode_str(&v));
            }
        }
        "ip-len" => {
            let n = *c.pick(&[0usize, 3, 5, 1, 16]);
            d.set(b"ip", rlp::encode_str(&vec![0x81; n]));
        }
        "ip-list" => d.set(b"ip", rlp::encode(&Item::List(vec![Item::s(&[127, 0, 0, 1])]))),
        "ip6-len" => {
            let n = *c.pick(&[4usize, 15, 17, 0]);
            d.set(b"ip6", rlp::encode_str(&vec![0x81; n]));
        }
        "ip6-list" => d.set(b"ip6", rlp::encode(&Item::List(vec![Item::s(&[0u8; 16])]))),
        "port-leading-zero" => {
            let key = ensure_port(&mut d, c);
            let v: &[u8] = *c.pick(&[&[0u8, 80][..], &[0, 0], &[0, 1, 2]]);
            d.set(&key, rlp::encode_str(v));
        }
        "port-3bytes" => {
            let key = ensure_port(&mut d, c);
            d.set(&key, rlp::encode_str(&[1, c.u8(), c.u8()]));
        }
        "port-0x00" => {
            let key = ensure_port(&mut d, c);
            d.set(&key, vec![0x00]);
        }
        "port-8105" => {
            let key = ensure_port(&mut d, c);
            d.set(&key, vec![0x81, c.u8() & 0x7f]);
        }
        "port-list" => {
            let key = ensure_port(&mut d, c);
            d.set(&key, rlp::encode(&Item::List(vec![Item::uint(80)])));
        }
        "seq-leading-zero" => {
            let mut b = rlp::be_min(gen_seq(c) | 1);
            b.insert(0, 0);
            if b.len() > 8 {
                b.truncate(8);
            }
            d.seq_raw = rlp::encode_str(&b);
        }
        "seq-9bytes" => {
            let mut b = c.bytes(9);
            b[0] |= 1;
            d.seq_raw = rlp::encode_str(&b);
        }
        "seq-0x00" => d.seq_raw = vec![0x00],
        "seq-list" => d.seq_raw = rlp::encode(&Item::List(vec![Item::uint(1)])),
        "sig-list" => sig_as_list = true,
        "key-list" => {
            let i = c.below(d.kv.len());
            let kp = key_payload(&d.kv[i].0).unwrap_or_default();
            d.kv[i].0 = rlp::encode(&Item::List(vec![Item::Str(kp)]));
        }
        "frame-noncanonical" => {
            // re-frame one top-level element (seq, a key or a string value) non-canonically
            let n = d.kv.len() * 2 + 1;
            for _ in 0..8 {
                let idx = c.below(n);
                let raw: Vec<u8> = if idx == 0 {
                    d.seq_raw.clone()
                } else {
                    let (kr, v) = &d.kv[(idx - 1) / 2];
                    if (idx - 1) % 2 == 0 {
                        kr.clone()
                    } else {
                        match v {
                            Some(v) => v.clone(),
                            None => continue,
                        }
                    }
                };
                let it = match rlp::decode_exact(&raw) {
                    Ok(i) => i,
                    Err(_) => continue,
                };
                let mut out = Vec::new();
                match &it {
                    Item::Str(s) => {
                        let how = if s.len() == 1 && s[0] < 0x80 {
                            BadFrame::SingleByteLong
                        } else if s.len() < 56 {
                            *c.pick(&[BadFrame::LongFormShort, BadFrame::LeadingZeroLen])
                        } else {
                            BadFrame::LeadingZeroLen
                        };
                        rlp::enc_str_bad(&mut out, s, how);
                    }
                    Item::List(_) => {
                        let (_, hl, pl) = rlp::header_at(&raw).unwrap();
                        let how = if pl < 56 { *c.pick(&[BadFrame::LongFormShort, BadFrame::LeadingZeroLen]) } else { BadFrame::LeadingZeroLen };
                        rlp::enc_list_bad(&mut out, &raw[hl..hl + pl], how);
                    }
                }
                if idx == 0 {
                    d.seq_raw = out;
                } else if (idx - 1) % 2 == 0 {
                    d.kv[(idx - 1) / 2].0 = out;
                } else {
                    d.kv[(idx - 1) / 2].1 = Some(out);
                }
                break;
            }
        }
        "nested-list-noncanonical" => {
            // a list value under an unknown key whose inner bytes are not well-formed RLP
            let inner: Vec<u8> = match c.below(3) {
                0 => vec![0x81, 0x05],
                1 => vec![0xb8, 0x01, 0x41],
                _ => vec![0x85, 1, 2],
            };
            let mut v = Vec::new();
            rlp::enc_list_payload(&mut v, &inner);
            d.set(b"zlist", v);
            d.has_custom = true;
        }
        "outer-string" => outer = Outer::AsString,
        "outer-bad-header" => outer = Outer::BadHeader,
        "outer-plus-one" => outer = Outer::DeclaredPlusOne,
        "inner-overrun" => outer = Outer::InnerOverrun,
        "empty-list" => whole = Some(vec![0xc0]),
        "tiny-list" => {
            let sig = sign_draft(&d, SignOver::Literal);
            let mut p = rlp::encode_str(&sig);
            if c.bool() {
                p.extend_from_slice(&d.seq_raw);
            }
            let mut o = Vec::new();
            rlp::enc_list_payload(&mut o, &p);
            whole = Some(o);
        }
        "size-boundary" => {
            if c.chance(40) {
                // far above the limit, around the points where the outer header grows (256, 64 KiB) and beyond:
                // a correctly signed record that is simply too big
                let n = *c.pick(&[240usize, 256, 1000, 65_400, 65_536, 65_600, 70_000, 200_000]);
                d.set(b"zz", rlp::encode_str(&vec![0x7a; n]));
            } else {
                let target = 297 + c.below(8);
                solve_size(&mut d, target, c);
            }
        }
        "other-scheme-entry-list" => {
            let other = match d.scheme {
                Scheme::Secp => Scheme::Ed,
                Scheme::Ed => Scheme::Secp,
            };
            d.set(other.key_name(), rlp::encode(&Item::List(vec![Item::s(b"x")])));
        }
        _ => {}
    }
    Mutated { d, outer, sig_as_list, whole, label: which }
}

pub fn finish(m: &Mutated, over: SignOver) -> Vec<u8> {
    if let Some(w) = &m.whole {
        return w.clone();
    }
    let sig = sign_draft(&m.d, over);
    let sig_elem = if m.sig_as_list {
        rlp::encode(&Item::List(vec![Item::Str(sig)]))
    } else {
        rlp::encode_str(&sig)
    };
    assemble_with(&sig_elem, &m.d, m.outer)
}

// ---------------------------------------------------------------------------------------------
// unsigned tampers (C01)

pub const FIELD_TAMPERS: [&str; 24] = [
    "seq-wrap",
    "value-alt-form",
    "sig-recid",
    "sig-der",
    "dup-pair-unsigned-before",
    "dup-pair-unsigned-after",
    "sig-strip-leading-zero",
    "sig-pad-leading-zero",
    "resign-other-key",
    "sig-over-seq-plus",
    "sig-over-seq-minus",
    "sig-over-changed-value",
    "sig-over-added-pair",
    "sig-over-removed-pair",
    "sig-of-other-record",
    "high-s",
    "r-zero",
    "s-zero",
    "r-ge-n",
    "s-ge-n",
    "sig-len",
    "pk-swapped",
    "sig-bitflip",
    "key-renamed",
];

/// A field-level tamper of the valid record `d`: the emitted record stays a well-formed RLP
/// record of the right shape; only the signature gate can reject it.
pub fn field_tamper(d: &Draft, which: &str, c: &mut Choices) -> Vec<u8> {
    let good_sig = sign_draft(d, SignOver::Literal);
    let other_secret = {
        let mut s = pick_secret(c, d.scheme);
        if s == d.secret {
            s = pool().of(d.scheme)[1];
            if s == d.secret {
                s = pool().of(d.scheme)[2];
            }
        }
        s
    };
    let mut emitted = d.clone();
    let mut sig = good_sig.clone();
    match which {
        "resign-other-key" => {
            sig = sign_content(d.scheme, &other_secret, d.alt_signer, &d.content());
        }
        "seq-wrap" => {
            // the signed number plus a multiple of 2^64 (or 2^32 for small numbers): a 9..=12-byte (5..=8-byte)
            // sequence-number string whose low bytes are the signed value
            let seq = rlp::decode_exact(&d.seq_raw).ok().and_then(|i| i.as_str().and_then(rlp::str_to_u64)).unwrap_or(1);
            let mut s = seq.to_be_bytes().to_vec();
            if c.chance(200) || seq > u32::MAX as u64 {
                for _ in 0..c.range(1, 4) {
                    s.insert(0, *c.pick(&[1u8, 0xff, 0x80]));
                }
            } else {
                s = (seq as u32).to_be_bytes().to_vec();
                s.insert(0, 1);
            }
            emitted.seq_raw = rlp::encode_str(&s);
        }
        "sig-over-seq-plus" | "sig-over-seq-minus" => {
            let seq = rlp::decode_exact(&d.seq_raw).ok().and_then(|i| i.as_str().and_then(rlp::str_to_u64)).unwrap_or(1);
            let n = if which.ends_with("plus") { seq.wrapping_add(1) } else { seq.wrapping_sub(1) };
            emitted.seq_raw = rlp::encode_uint(n);
        }
        "sig-over-changed-value" => {
            // change one value (keeping its type): flip a payload bit
            let i = c.below(emitted.kv.len());
            let kp = key_payload(&emitted.kv[i].0).unwrap_or_default();
            if kp == b"id" || kp == d.scheme.key_name() {
                // change the seq instead, id/pk changes are separate tampers
                emitted.seq_raw = rlp::encode_uint(77);
                if emitted.seq_raw == d.seq_raw {
                    emitted.seq_raw = rlp::encode_uint(78);
                }
            } else if let Some(v) = emitted.kv[i].1.as_mut() {
                match rlp::decode_exact(v) {
                    Ok(Item::Str(mut s)) if !s.is_empty() => {
                        let j = c.below(s.len());
                        s[j] ^= 1 << c.below(8);
                        if is_port_key(&kp) && s[0] == 0 {
                            s[0] = 1;
                        }
                        *v = rlp::encode_str(&s);
                    }
                    _ => {
                        *v = rlp::encode_str(b"changed");
                        if is_port_key(&kp) {
                            *v = rlp::encode_uint(4242);
                        }
                        if kp == b"ip" {
                            *v = rlp::encode_str(&[9, 9, 9, 9]);
                        }
                        if kp == b"ip6" {
                            *v = rlp::encode_str(&[9u8; 16]);
                        }
                    }
                }
            }
        }
        "sig-over-added-pair" => {
            let key: &[u8] = if emitted.find(b"zzz").is_none() { b"zzz" } else { b"zzzz" };
            emitted.set(key, rlp::encode_str(b"x"));
        }
        "sig-over-removed-pair" => {
            let cands: Vec<usize> = (0..emitted.kv.len())
                .filter(|i| {
                    let kp = key_payload(&emitted.kv[*i].0).unwrap_or_default();
                    kp != b"id" && kp != d.scheme.key_name()
                })
                .collect();
            if cands.is_empty() {
                emitted.seq_raw = rlp::encode_uint(99);
                if emitted.seq_raw == d.seq_raw {
                    emitted.seq_raw = rlp::encode_uint(98);
                }
            } else {
                let i = *c.pick(&cands);
                emitted.kv.remove(i);
            }
        }
        "sig-of-other-record" => {
            let mut o = gen_valid_draft(c);
            o.scheme = d.scheme;
            o.secret = d.secret;
            o.set(d.scheme.key_name(), rlp::encode_str(&ref_pk(d.scheme, &d.secret)));
            if o.content() == d.content() {
                o.seq_raw = rlp::encode_uint(123456);
            }
            sig = sign_draft(&o, SignOver::Literal);
        }
        "high-s" => {
            if d.scheme == Scheme::Secp {
                let mut a = [0u8; 64];
                a.copy_from_slice(&good_sig);
                sig = crypto::high_s_twin(&a).to_vec();
            } else {
                sig[63] ^= 0x80;
            }
        }
        "r-zero" => {
            for x in sig.iter_mut().take(32) {
                *x = 0;
            }
        }
        "s-zero" => {
            for x in sig.iter_mut().skip(32) {
                *x = 0;
            }
        }
        "r-ge-n" => {
            let v = crypto::add32_small(&crypto::N, c.below(3) as u8);
            sig[..32].copy_from_slice(&v);
        }
        "s-ge-n" => {
            let v = crypto::add32_small(&crypto::N, c.below(3) as u8);
            sig[32..].copy_from_slice(&v);
        }
        "sig-len" => match c.below(5) {
            0 => sig.clear(),
            1 => {
                sig.pop();
            }
            2 => sig.push(0),
            3 => sig.extend_from_slice(&good_sig),
            _ => {
                sig.remove(0);
            }
        },
        "pk-swapped" => {
            emitted.set(d.scheme.key_name(), rlp::encode_str(&ref_pk(d.scheme, &other_secret)));
            if c.bool() {
                // signature by the original key over the *new* content
                sig = sign_content(d.scheme, &d.secret, d.alt_signer, &emitted.content());
            }
        }
        "sig-strip-leading-zero" | "sig-pad-leading-zero" => {
            // search a record (vary the sequence number) whose signature has a leading zero byte in r or s,
            // then drop that byte (a lenient big-endian parser would accept the shorter field)
            let mut found = false;
            if which == "sig-strip-leading-zero" {
                let base = rlp::decode_exact(&d.seq_raw).ok().and_then(|i| i.as_str().and_then(rlp::str_to_u64)).unwrap_or(1);
                for t in 0..1500u64 {
                    let mut e2 = d.clone();
                    e2.seq_raw = rlp::encode_uint(base.wrapping_add(t) % (u64::MAX - 1));
                    let sg = sign_draft(&e2, SignOver::Literal);
                    if sg[0] == 0 {
                        emitted = e2;
                        sig = sg[1..].to_vec();
                        found = true;
                        break;
                    }
                    if sg.len() == 64 && sg[32] == 0 && t % 2 == 1 {
                        emitted = e2;
                        sig = [&sg[..32], &sg[33..]].concat();
                        found = true;
                        break;
                    }
                }
            }
            if !found {
                // pad instead: a 65-byte field with a leading zero
                sig.insert(0, 0);
            }
        }
        "value-alt-form" => {
            // rewrite a typed value into another spelling of "the same" value (what a decoder that
            // normalises on the way in would fold back), keeping the signature over the original:
            // ip 4 bytes <-> IPv4-mapped 16 bytes, port with a leading zero / as 4 bytes, ip6 of an
            // embedded IPv4 address -> 4 bytes
            if emitted.find(b"ip").is_none() {
                emitted.set(b"ip", rlp::encode_str(&[10, 0, 0, 1]));
            }
            // the record must be validly signed over the original values
            let base = emitted.clone();
            let s0 = sign_draft(&base, SignOver::Literal);
            sig = s0;
            let pick = c.below(4);
            let getv = |d: &Draft, k: &[u8]| d.find(k).and_then(|i| d.kv[i].1.clone()).and_then(|r| rlp::decode_exact(&r).ok()).and_then(|i| i.as_str().map(|s| s.to_vec()));
            match pick {
                0 | 1 => {
                    if let Some(v4) = getv(&emitted, b"ip") {
                        if v4.len() == 4 {
                            let mut m = vec![0u8; 10];
                            m.extend_from_slice(&[0xff, 0xff]);
                            m.extend_from_slice(&v4);
                            emitted.set(b"ip", rlp::encode_str(&m));
                        }
                    }
                }
                2 => {
                    let key: &[u8] = *c.pick(&[&b"tcp"[..], b"udp", b"tcp6", b"udp6"]);
                    let port = getv(&emitted, key);
                    match port {
                        Some(p) => {
                            let mut q = vec![0u8; 1 + c.below(3)];
                            q.extend_from_slice(&p);
                            emitted.set(key, rlp::encode_str(&q));
                        }
                        None => {
                            // sign a record that has the port, emit the alternative spelling
                            let mut b2 = emitted.clone();
                            b2.set(key, rlp::encode_uint(80));
                            sig = sign_draft(&b2, SignOver::Literal);
                            emitted = b2;
                            emitted.set(key, rlp::encode_str(&[0, 80]));
                        }
                    }
                }
                _ => {
                    // ip6 = ::ffff:a.b.c.d signed, emitted as the 4-byte form
                    let mut b2 = emitted.clone();
                    let mut m = vec![0u8; 10];
                    m.extend_from_slice(&[0xff, 0xff, 192, 0, 2, 1]);
                    b2.set(b"ip6", rlp::encode_str(&m));
                    sig = sign_draft(&b2, SignOver::Literal);
                    emitted = b2;
                    emitted.set(b"ip6", rlp::encode_str(&[192, 0, 2, 1]));
                }
            }
        }
        "sig-recid" => {
            // r || s || v as produced by recoverable-signature APIs (v = 0, 1, 27, 28), or v || r || s
            let v = *c.pick(&[0u8, 1, 27, 28]);
            if c.chance(200) {
                sig.push(v);
            } else {
                sig.insert(0, v);
            }
        }
        "sig-der" => {
            // the same (r, s) in ASN.1 DER (what other tools emit): 30 len 02 lr r 02 ls s
            let int = |b: &[u8]| -> Vec<u8> {
                let mut v: Vec<u8> = b.iter().copied().skip_while(|x| *x == 0).collect();
                if v.is_empty() || v[0] & 0x80 != 0 {
                    v.insert(0, 0);
                }
                let mut o = vec![0x02, v.len() as u8];
                o.extend(v);
                o
            };
            if good_sig.len() == 64 {
                let body = [int(&good_sig[..32]), int(&good_sig[32..])].concat();
                sig = vec![0x30, body.len() as u8];
                sig.extend(body);
            }
        }
        "dup-pair-unsigned-before" | "dup-pair-unsigned-after" => {
            // splice an unsigned copy of a pair (same key, other value) next to the signed one; prefer
            // the first pair (the empty key sorts first) and single-byte keys
            let i = if c.bool() { 0 } else { c.below(emitted.kv.len()) };
            let mut dup = emitted.kv[i].clone();
            if let Some(v) = dup.1.as_mut() {
                if let Ok(Item::Str(s)) = rlp::decode_exact(v) {
                    let mut s2 = s.clone();
                    s2.push(0x41);
                    *v = rlp::encode_str(&s2);
                }
            }
            if which.ends_with("before") {
                emitted.kv.insert(i, dup);
            } else {
                emitted.kv.insert(i + 1, dup);
            }
        }
        "sig-bitflip" => {
            let i = c.below(sig.len());
            sig[i] ^= 1 << c.below(8);
        }
        "key-renamed" => {
            // rename a custom key (content changes, order kept where possible)
            let cands: Vec<usize> = (0..emitted.kv.len())
                .filter(|i| {
                    let kp = key_payload(&emitted.kv[*i].0).unwrap_or_default();
                    !RESERVED.iter().any(|r| *r == kp.as_slice())
                })
                .collect();
            if let Some(i) = cands.first() {
                let mut kp = key_payload(&emitted.kv[*i].0).unwrap_or_default();
                kp.push(b'_');
                emitted.kv[*i].0 = rlp::encode_str(&kp);
                emitted.sort();
            } else {
                emitted.set(b"zzz", rlp::encode_str(b""));
            }
        }
        _ => {}
    }
    assemble(&sig, &emitted, Outer::Canonical)
}

pub const BYTE_TAMPERS: [&str; 5] = ["bitflip", "byte-replace", "byte-insert", "byte-delete", "truncate"];

pub fn byte_tamper(bytes: &[u8], which: &str, c: &mut Choices) -> Vec<u8> {
    let mut b = bytes.to_vec();
    if b.is_empty() {
        return b;
    }
    match which {
        "bitflip" => {
            let i = c.below(b.len());
            b[i] ^= 1 << c.below(8);
        }
        "byte-replace" => {
            let i = c.below(b.len());
            let n = c.u8();
            b[i] = if n == b[i] { n.wrapping_add(1) } else { n };
        }
        "byte-insert" => {
            let i = c.below(b.len() + 1);
            b.insert(i, c.u8());
        }
        "byte-delete" => {
            let i = c.below(b.len());
            b.remove(i);
        }
        "truncate" => {
            let n = c.below(b.len());
            b.truncate(n);
        }
        _ => {}
    }
    b
}
