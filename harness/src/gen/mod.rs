pub mod wire;
