pub mod history;
pub mod wire;
