//! History generator: initial record (builder or harness-signed decode) + operations over all 22
//! public mutators with arbitrary (well-typed, ill-typed, malformed) arguments.
use crate::case::*;
use crate::choices::Choices;
use crate::gen::wire::{self, gen_custom_key, gen_ip4, gen_ip6, gen_item, gen_port, gen_seq, gen_str_value, RESERVED};
use crate::keys::{pool, FamId, ALL_FAMS};
use crate::refmodel::crypto;
use crate::refmodel::record::Scheme;
use crate::refmodel::rlp::{self, Item};
use std::net::{IpAddr, Ipv4Addr, Ipv6Addr, SocketAddr, SocketAddrV4, SocketAddrV6};

pub fn gen_fam(c: &mut Choices) -> FamId {
    // k256 most often (shrinks towards it), every family represented
    const W: [FamId; 16] = [
        FamId::Null,
        FamId::Nano,
        FamId::Big,
        FamId::Mid,
        FamId::Tiny,
        FamId::Wide,
        FamId::K256,
        FamId::K256,
        FamId::Libsecp,
        FamId::Libsecp,
        FamId::Ed,
        FamId::CombinedSecp,
        FamId::CombinedSecp,
        FamId::CombinedEd,
        FamId::Var,
        FamId::Ed,
    ];
    *c.pick(&W)
}

pub fn gen_keys(c: &mut Choices, fam: FamId) -> Vec<Secret> {
    let n = 1 + c.below(3);
    if fam.is_toy() {
        return (0..n).map(|_| Secret(c.arr32())).collect::<Vec<_>>().into_iter().enumerate().map(|(i, mut s)| { s.0[0] ^= i as u8; s }).collect();
    }
    if fam == FamId::Wide {
        // the last byte of the secret selects the signature length (64 + 7 * (b % 37) + 0..6)
        return (0..n)
            .map(|i| {
                let mut s = [0u8; 32];
                s[0] = 1 + i as u8;
                s[31] = c.u8();
                Secret(s)
            })
            .collect();
    }
    let p = pool().of(fam.scheme());
    let mut v: Vec<Secret> = Vec::new();
    for _ in 0..n {
        let mut s = if c.chance(50) { c.arr32() } else { *c.pick(p) };
        if !fam.secret_ok(&s) {
            s = p[0];
        }
        // distinct keys
        let mut tries = 0;
        while v.iter().any(|x| x.0 == s) && tries < p.len() {
            s = p[(tries + v.len()) % p.len()];
            tries += 1;
        }
        v.push(Secret(s));
    }
    v
}

pub fn gen_ip(c: &mut Choices) -> IpAddr {
    if c.bool() {
        IpAddr::V4(Ipv4Addr::from(gen_ip4(c)))
    } else {
        IpAddr::V6(Ipv6Addr::from(gen_ip6(c)))
    }
}

pub fn gen_sockaddr(c: &mut Choices) -> SocketAddr {
    let port = gen_port(c);
    if c.bool() {
        SocketAddr::V4(SocketAddrV4::new(Ipv4Addr::from(gen_ip4(c)), port))
    } else {
        let (flow, scope) = if c.chance(60) { (c.u32(), c.u32()) } else { (0, 0) };
        SocketAddr::V6(SocketAddrV6::new(Ipv6Addr::from(gen_ip6(c)), port, flow, scope))
    }
}

pub fn gen_string(c: &mut Choices) -> String {
    match c.below(6) {
        0 => String::new(),
        1 => "lighthouse".into(),
        2 => "v1.2.3-äöü-✓".into(),
        3 => {
            let n = c.range(1, 40);
            (0..n).map(|_| (b'a' + (c.u8() % 26)) as char).collect()
        }
        4 => {
            let n = c.range(50, 120);
            "x".repeat(n)
        }
        _ => {
            let n = c.range(1, 6);
            (0..n).map(|_| *c.pick(&['a', 'Z', '0', ' ', 'é', '✓', '\0', '\u{7f}', '\u{80}'])).collect()
        }
    }
}

/// key for a generic entry point: custom, reserved, neighbour, long
pub fn gen_any_key(c: &mut Choices, fam: FamId) -> Vec<u8> {
    match c.below(10) {
        0..=3 => gen_custom_key(c),
        4..=7 => {
            // reserved keys; the signer scheme's own key name a bit more rarely
            let k: &[u8] = *c.pick(&RESERVED[..]);
            k.to_vec()
        }
        8 => fam.key_name().to_vec(),
        _ => {
            let n = c.range(11, 400);
            vec![b'k'; n]
        }
    }
}

fn well_typed_tval(c: &mut Choices, key: &[u8], fam: FamId) -> Option<TVal> {
    Some(match key {
        b"tcp" | b"tcp6" | b"udp" | b"udp6" => match c.below(3) {
            0 => TVal::U16(gen_port(c)),
            1 => TVal::U8(c.u8()),
            _ => TVal::U64(gen_port(c) as u64),
        },
        b"id" => TVal::Str("v4".into()),
        b"client" => {
            let n = c.below(6);
            TVal::StrList((0..n).map(|_| if c.bool() { "x".to_string() } else { gen_string(c) }).collect())
        }
        b"ip" => TVal::Bytes(gen_ip4(c).to_vec()),
        b"ip6" => TVal::Bytes(gen_ip6(c).to_vec()),
        b"secp256k1" => {
            let s = *c.pick(pool().of(Scheme::Secp));
            let pk = crypto::secp_pk_from_secret(&s).unwrap();
            match c.below(5) {
                0 | 1 => {
                    // 65-byte SEC1 forms of a valid point: uncompressed (04) and hybrid (06 / 07)
                    let u = crypto::secp_uncompressed(&pk).unwrap();
                    let tag = *c.pick(&[4u8, 4, 6, 7, if u[63] & 1 == 1 { 7 } else { 6 }]);
                    let mut v = vec![tag];
                    v.extend_from_slice(&u);
                    TVal::Bytes(v)
                }
                _ => TVal::Bytes(pk.to_vec()),
            }
        }
        b"ed25519" => {
            let s = *c.pick(pool().of(Scheme::Ed));
            TVal::Bytes(crypto::ed_pk_from_seed(&s).to_vec())
        }
        _ => {
            let _ = fam;
            return None;
        }
    })
}

pub fn gen_tval(c: &mut Choices, key: &[u8], fam: FamId) -> TVal {
    if c.chance(150) {
        if let Some(v) = well_typed_tval(c, key, fam) {
            return v;
        }
    }
    match c.below(10) {
        9 => {
            // a user Encodable that does not emit exactly one item
            match c.below(6) {
                0 => TVal::Raw(vec![]),
                1 => TVal::Raw(vec![0x01, 0x02]),
                2 => TVal::Raw(vec![0x83, 0x01]),
                3 => TVal::Raw(vec![0x81, 0x05]),
                4 => {
                    let mut v = rlp::encode_str(&gen_str_value(c));
                    v.extend(rlp::encode_str(b"udp"));
                    v.extend(rlp::encode_uint(1));
                    TVal::Raw(v)
                }
                _ => {
                    let n = c.below(6);
                    TVal::Raw(c.bytes(n))
                }
            }
        }
        0 => TVal::Bytes(gen_str_value(c)),
        1 => TVal::U8(c.u8()),
        2 => TVal::U16(c.u16()),
        3 => TVal::U64(gen_seq(c)),
        4 => TVal::Str(gen_string(c)),
        5 => {
            let n = c.below(6);
            TVal::StrList((0..n).map(|_| gen_string(c)).collect())
        }
        6 => {
            let n = c.below(6);
            TVal::BytesList((0..n).map(|_| gen_str_value(c)).collect())
        }
        7 => {
            // a big value (size failures); rarely far beyond any record size
            let n = if c.chance(12) { *c.pick(&[65_534usize, 65_536, 70_000, 200_000]) } else { c.range(100, 260) };
            TVal::Bytes(vec![c.u8(); n])
        }
        8 if c.chance(50) => TVal::Record { list: c.chance(60) },
        _ => TVal::Item(gen_item(c, 3)),
    }
}

/// raw RLP for `insert_raw_rlp` / `add_value_rlp`: well-formed, ill-typed or malformed
pub fn gen_raw(c: &mut Choices, key: &[u8], fam: FamId) -> Vec<u8> {
    match c.below(10) {
        0..=4 => gen_tval(c, key, fam).ref_rlp(),
        5 => vec![],
        6 => {
            // truncated: header announces more than present
            let mut v = rlp::encode_str(&c.bytes(8));
            let n = c.range(1, v.len() - 1);
            v.truncate(n);
            v
        }
        7 => {
            // trailing bytes after a complete item
            let mut v = gen_tval(c, key, fam).ref_rlp();
            let n = c.range(1, 3);
            v.extend(c.bytes(n));
            v
        }
        8 => {
            // overlong / non-canonical framing
            match c.below(5) {
                0 => vec![0xb8, 0x01, 0x41],
                1 => vec![0x81, 0x05],
                2 => vec![0xbf, 0xff, 0xff, 0xff, 0xff, 0xff, 0xff, 0xff, 0xff],
                3 => vec![0xf8, 0x01, 0x41],
                _ => vec![0xb9, 0x00, 0x05, 1, 2, 3, 4, 5],
            }
        }
        _ => {
            // list with malformed inner bytes
            let mut v = Vec::new();
            rlp::enc_list_payload(&mut v, &[0x81, 0x05]);
            v
        }
    }
}

pub fn gen_signer(c: &mut Choices, nkeys: usize) -> usize {
    if nkeys > 1 && c.chance(50) {
        1 + c.below(nkeys - 1)
    } else {
        0
    }
}

pub fn gen_op(c: &mut Choices, fam: FamId, nkeys: usize) -> Op {
    let k = gen_signer(c, nkeys);
    match c.below(27) {
        0 => Op::SetSeq { seq: gen_seq(c), k },
        1 | 2 => {
            let key = gen_any_key(c, fam);
            let val = gen_tval(c, &key, fam);
            Op::Insert { key, val, k }
        }
        3 | 4 => {
            let key = gen_any_key(c, fam);
            let raw = gen_raw(c, &key, fam);
            Op::InsertRaw { key, raw, k }
        }
        5 => Op::SetIp { ip: gen_ip(c), k },
        6 | 7 => Op::SetPort { which: *c.pick(&PortKey::ALL), port: gen_port(c), k },
        8 => Op::RemovePort { which: *c.pick(&PortKey::ALL), k },
        9 => Op::SetClientInfo {
            name: gen_string(c),
            version: gen_string(c),
            build: if c.bool() { Some(gen_string(c)) } else { None },
            k,
        },
        10 | 11 => Op::SetSocket { tcp: c.bool(), addr: gen_sockaddr(c), k },
        12 => Op::RemoveSocket { tcp: c.bool(), v6: c.bool(), k },
        13 | 14 => Op::RemoveKey { key: gen_any_key(c, fam), k },
        15 | 16 | 17 => {
            let nr = c.below(4);
            let ni = c.below(4);
            let mut remove: Vec<Vec<u8>> = (0..nr).map(|_| gen_any_key(c, fam)).collect();
            let mut insert: Vec<(Vec<u8>, Vec<u8>)> = (0..ni)
                .map(|_| {
                    let key = gen_any_key(c, fam);
                    // values are plain byte strings here
                    let v = if c.chance(150) {
                        match well_typed_tval(c, &key, fam) {
                            Some(TVal::Bytes(b)) => b,
                            Some(TVal::U16(p)) => rlp::be_min(p as u64),
                            Some(TVal::U8(p)) => rlp::be_min(p as u64),
                            Some(TVal::U64(p)) => rlp::be_min(p),
                            Some(TVal::Str(s)) => s.into_bytes(),
                            _ => gen_str_value(c),
                        }
                    } else if c.chance(30) {
                        let n = c.range(100, 260);
                        vec![7u8; n]
                    } else {
                        gen_str_value(c)
                    };
                    (key, v)
                })
                .collect();
            // the same key twice in one list, and in both lists (in either order of the lists' entries)
            if !remove.is_empty() && c.chance(50) {
                let j = c.below(remove.len());
                let d = remove[j].clone();
                remove.push(d);
            }
            if !insert.is_empty() && c.chance(60) {
                let j = c.below(insert.len());
                let (dk, dv) = insert[j].clone();
                let v2 = if c.bool() { dv } else { gen_str_value(c) };
                let at = c.below(insert.len() + 1);
                insert.insert(at, (dk, v2));
            }
            if !insert.is_empty() && c.chance(60) {
                let j = c.below(insert.len());
                let at = c.below(remove.len() + 1);
                remove.insert(at, insert[j].0.clone());
            }
            if c.chance(20) {
                // long lists
                for j in 0..c.range(4, 12) {
                    insert.push((vec![b'q', j as u8], vec![j as u8]));
                    if c.bool() {
                        remove.push(vec![b'q', (j / 2) as u8]);
                    }
                }
            }
            Op::RemoveInsert { remove, insert, k }
        }
        18 => Op::SetPublicKey { pk_of: if c.chance(60) { c.below(nkeys) } else { k }, k },
        19 => Op::Redecode,
        20 => Op::CloneSwap,
        21 => Op::SetSeq { seq: *c.pick(&[u64::MAX, u64::MAX - 1, 0, 127, 255, 65535]), k },
        22 => {
            // a big custom value to approach the size limit
            let n = c.range(60, 230);
            Op::Insert { key: c.pick(&[&b"zz"[..], b"big", b"a"]).to_vec(), val: TVal::Bytes(vec![0x61; n]), k }
        }
        23 => Op::Reparse { prefix: c.bool() },
        24 => Op::Reserde,
        25 => Op::CloneFrom,
        _ => Op::SetIp { ip: gen_ip(c), k },
    }
}

pub fn gen_bcall(c: &mut Choices, fam: FamId) -> BCall {
    match c.below(12) {
        0 => BCall::Seq(gen_seq(c)),
        1 | 2 => {
            let key = gen_any_key(c, fam);
            let val = gen_tval(c, &key, fam);
            BCall::AddValue { key, val }
        }
        3 | 4 => {
            let key = gen_any_key(c, fam);
            let raw = gen_raw(c, &key, fam);
            BCall::AddValueRlp { key, raw }
        }
        5 => BCall::Ip(gen_ip(c)),
        6 => BCall::Ip4(Ipv4Addr::from(gen_ip4(c))),
        7 => BCall::Ip6(Ipv6Addr::from(gen_ip6(c))),
        8 | 9 => BCall::Port { which: *c.pick(&PortKey::ALL), port: gen_port(c) },
        10 => BCall::ClientInfo { name: gen_string(c), version: gen_string(c), build: if c.bool() { Some(gen_string(c)) } else { None } },
        _ => {
            let n = c.range(60, 230);
            BCall::AddValue { key: b"zz".to_vec(), val: TVal::Bytes(vec![0x62; n]) }
        }
    }
}

/// pairs (without id / public key) for a harness-signed initial record
pub fn gen_decoded_pairs(c: &mut Choices, fam: FamId) -> Vec<(Vec<u8>, Vec<u8>)> {
    let mut m = std::collections::BTreeMap::new();
    let n = c.below(4);
    for _ in 0..n {
        let key = gen_custom_key(c);
        if RESERVED.iter().any(|r| *r == key.as_slice()) {
            continue;
        }
        m.insert(key, rlp::encode(&gen_item(c, 2)));
    }
    if c.bool() {
        m.insert(b"ip".to_vec(), rlp::encode_str(&gen_ip4(c)));
    }
    if c.chance(80) {
        m.insert(b"ip6".to_vec(), rlp::encode_str(&gen_ip6(c)));
    }
    for pk in PortKey::ALL {
        if c.chance(100) {
            m.insert(pk.key().to_vec(), rlp::encode_uint(gen_port(c) as u64));
        }
    }
    if c.chance(40) {
        m.insert(b"client".to_vec(), rlp::encode(&Item::List(vec![Item::s(b"n"), Item::s(b"v")])));
    }
    let _ = fam;
    m.into_iter().collect()
}

/// grow/shrink a filler so that the initial decoded record has exactly `target` bytes (64-byte sig)
pub fn fit_decoded(fam: FamId, secret: &[u8; 32], seq: u64, pairs: &mut Vec<(Vec<u8>, Vec<u8>)>, target: usize) {
    let key = b"zz".to_vec();
    pairs.retain(|(k, _)| *k != key);
    for _ in 0..6 {
        let cur = crate::exec::decoded_init_bytes(fam, secret, seq, pairs).len();
        if cur == target {
            return;
        }
        let have = pairs.iter().position(|(k, _)| *k == key);
        let cur_len = have
            .and_then(|i| rlp::decode_exact(&pairs[i].1).ok())
            .and_then(|it| it.as_str().map(|s| s.len()))
            .unwrap_or(0) as isize;
        let mut want = cur_len + target as isize - cur as isize;
        if have.is_none() {
            want -= 4;
        }
        if want < 0 {
            // drop the largest other custom pair
            let mut best: Option<(usize, usize)> = None;
            for (i, (k, v)) in pairs.iter().enumerate() {
                if *k == key {
                    continue;
                }
                if best.map(|b| v.len() > b.1).unwrap_or(true) {
                    best = Some((i, v.len()));
                }
            }
            match best {
                Some((i, _)) => {
                    pairs.remove(i);
                }
                None => return,
            }
            continue;
        }
        let v = rlp::encode_str(&vec![0x7a; want as usize]);
        match have {
            Some(i) => pairs[i].1 = v,
            None => {
                pairs.push((key.clone(), v));
                pairs.sort();
            }
        }
    }
}

pub fn gen_init(c: &mut Choices, fam: FamId, secret: &[u8; 32]) -> Init {
    if c.chance(150) {
        let n = c.below(7);
        Init::Builder { calls: (0..n).map(|_| gen_bcall(c, fam)).collect() }
    } else {
        let seq = gen_seq(c);
        let mut pairs = gen_decoded_pairs(c, fam);
        if c.chance(110) {
            let target = *c.pick(&[300usize, 299, 298, 296, 292, 290, 280, 260]);
            fit_decoded(fam, secret, seq, &mut pairs, target);
        } else {
            // keep it decodable
            while crate::exec::decoded_init_bytes(fam, secret, seq, &pairs).len() > 300 && !pairs.is_empty() {
                pairs.pop();
            }
        }
        Init::Decoded { seq, pairs }
    }
}

/// Two- and three-call CombinedKey histories in which the second key belongs to the OTHER scheme:
/// one update signed by the other-scheme key (k = 1), then every alphabet operation signed by the
/// record's original key (k = 0), optionally followed by set_seq with the original key.
pub fn cross_sequences(quick: bool) -> Vec<History> {
    let mut out = Vec::new();
    for fam in [FamId::CombinedSecp, FamId::CombinedEd] {
        let own = pool().of(fam.scheme());
        let keys = vec![Secret(own[own.len() - 1]), Secret(pool().secp[4 % pool().secp.len()])];
        let firsts = [Op::SetPort { which: PortKey::Udp, port: 1, k: 1 }, Op::SetSeq { seq: 5, k: 1 }, Op::Insert { key: b"x".to_vec(), val: TVal::U8(1), k: 1 }];
        for (i, first) in firsts.iter().enumerate() {
            if quick && i > 0 {
                break;
            }
            for second in alphabet(fam) {
                let mut second = second;
                set_signer(&mut second, 0);
                let mut ops = vec![first.clone(), second.clone()];
                out.push(History { fam, keys: keys.clone(), init: Init::Builder { calls: vec![] }, ops: ops.clone(), fault_at: None, alt_keys: vec![1] });
                if !quick {
                    ops.push(Op::SetSeq { seq: 900, k: 0 });
                    out.push(History { fam, keys: keys.clone(), init: Init::Builder { calls: vec![] }, ops, fault_at: None, alt_keys: vec![1] });
                }
            }
        }
    }
    out
}

fn set_signer(op: &mut Op, to: usize) {
    match op {
        Op::SetSeq { k, .. }
        | Op::Insert { k, .. }
        | Op::InsertRaw { k, .. }
        | Op::SetIp { k, .. }
        | Op::SetPort { k, .. }
        | Op::RemovePort { k, .. }
        | Op::SetClientInfo { k, .. }
        | Op::SetSocket { k, .. }
        | Op::RemoveSocket { k, .. }
        | Op::RemoveKey { k, .. }
        | Op::RemoveInsert { k, .. } => *k = to,
        Op::SetPublicKey { k, pk_of } => {
            *k = to;
            *pk_of = to;
        }
        _ => {}
    }
}

/// A history that may sign with the other CombinedKey variant (cross-scheme signer).
pub fn gen_history_cross(c: &mut Choices) -> History {
    let mut h = gen_history(c, None);
    if matches!(h.fam, FamId::CombinedSecp | FamId::CombinedEd) && h.keys.len() > 1 && c.chance(160) {
        // keys[1..] may belong to the other scheme; secrets valid for secp are valid for ed25519 too
        let other_pool = pool().of(Scheme::Secp);
        for i in 1..h.keys.len() {
            if c.bool() {
                if !crate::refmodel::crypto::secp_secret_valid(&h.keys[i].0) {
                    h.keys[i] = Secret(other_pool[i % other_pool.len()]);
                }
                h.alt_keys.push(i);
            }
        }
    }
    h
}

pub fn gen_history(c: &mut Choices, fam: Option<FamId>) -> History {
    let fam = fam.unwrap_or_else(|| gen_fam(c));
    let keys = gen_keys(c, fam);
    let mut init = gen_init(c, fam, &keys[0].0);
    if keys.len() > 1 && c.chance(40) {
        // the same Builder value used for two builds
        if let Init::Builder { calls } = init {
            init = Init::BuilderReuse { calls, first: c.below(keys.len()) };
        }
    }
    let n = c.below(13);
    let nk = keys.len();
    let mut ops: Vec<Op> = Vec::with_capacity(n);
    for _ in 0..n {
        // re-applying an earlier call (idempotent re-set, double removal, ...) is a shape of its own
        if !ops.is_empty() && c.chance(36) {
            let j = c.below(ops.len());
            let o = ops[ops.len() - 1 - j].clone();
            ops.push(o);
        } else {
            ops.push(gen_op(c, fam, nk));
        }
    }
    // now and then a remove_insert / insert hands over the SIGNER's own public-key entry
    for op in ops.iter_mut() {
        match op {
            Op::RemoveInsert { insert, k, .. } if *k < keys.len() && c.chance(40) => {
                let at = c.below(insert.len() + 1);
                insert.insert(at, (fam.key_name().to_vec(), fam.ref_pk(&keys[*k].0)));
            }
            Op::Insert { key, val, k } if *k < keys.len() && key.as_slice() == fam.key_name() && c.chance(100) => {
                *val = TVal::Bytes(fam.ref_pk(&keys[*k].0));
            }
            _ => {}
        }
    }
    History { fam, keys, init, ops, fault_at: None, alt_keys: vec![] }
}

// ---------------------------------------------------------------------------------------------
// bounded-exhaustive set

/// Alphabet of concrete operations: every mutator once with a benign argument, plus ill-typed,
/// oversize, other-key and no-op variants where they exist.  Key 0 = own, key 1 = another key.
pub fn alphabet(fam: FamId) -> Vec<Op> {
    let v4: SocketAddr = "10.1.2.3:9000".parse().unwrap();
    let v6: SocketAddr = "[fe80::1]:9001".parse().unwrap();
    let kn = fam.key_name().to_vec();
    let mut a = vec![
        Op::SetSeq { seq: 5, k: 0 },
        Op::SetSeq { seq: u64::MAX, k: 0 },
        Op::SetSeq { seq: 9, k: 1 },
        Op::Insert { key: b"eth2".to_vec(), val: TVal::Bytes(vec![1, 2, 3, 4]), k: 0 },
        Op::Insert { key: b"tcp".to_vec(), val: TVal::Bytes(vec![0, 80]), k: 0 }, // ill-typed (leading zero)
        Op::Insert { key: b"ip".to_vec(), val: TVal::Bytes(vec![1, 2, 3]), k: 0 }, // ill-typed
        Op::Insert { key: b"id".to_vec(), val: TVal::Str("v5".into()), k: 0 },     // unsupported id
        Op::Insert { key: b"big".to_vec(), val: TVal::Bytes(vec![0x61; 200]), k: 0 }, // oversize
        Op::Insert { key: b"eth2".to_vec(), val: TVal::U64(7), k: 1 },             // other key
        Op::Insert { key: b"x".to_vec(), val: TVal::Raw(vec![0x01, 0x02]), k: 0 }, // Encodable emitting two items
        // arguments far beyond any record size (64 KiB is where RLP length prefixes grow to 3 bytes)
        Op::Insert { key: b"huge".to_vec(), val: TVal::Bytes(vec![0x61; 65_530]), k: 0 },
        Op::RemoveInsert { remove: vec![], insert: vec![(b"huge".to_vec(), vec![0x62; 70_000])], k: 0 },
        Op::RemoveKey { key: vec![b'k'; 66_000], k: 0 },
        Op::SetClientInfo { name: "n".repeat(40_000), version: "v".repeat(30_000), build: None, k: 0 },
        Op::InsertRaw { key: b"raw".to_vec(), raw: vec![0xc2, 0x01, 0x02], k: 0 },
        Op::InsertRaw { key: b"raw".to_vec(), raw: vec![0x83, 0x01], k: 0 }, // malformed (truncated)
        Op::InsertRaw { key: b"raw".to_vec(), raw: vec![0x01, 0x02], k: 0 }, // trailing bytes
        Op::InsertRaw { key: b"udp".to_vec(), raw: vec![0x82, 0x00, 0x50], k: 0 }, // ill-typed
        Op::SetIp { ip: "192.168.1.9".parse().unwrap(), k: 0 },
        Op::SetIp { ip: "::1".parse().unwrap(), k: 0 },
        Op::SetPort { which: PortKey::Udp, port: 30303, k: 0 },
        Op::RemovePort { which: PortKey::Udp, k: 0 },
        Op::SetPort { which: PortKey::Udp6, port: 0, k: 0 },
        Op::RemovePort { which: PortKey::Udp6, k: 0 },
        Op::SetPort { which: PortKey::Tcp, port: 65535, k: 0 },
        Op::RemovePort { which: PortKey::Tcp, k: 0 },
        Op::SetPort { which: PortKey::Tcp6, port: 127, k: 1 },
        Op::RemovePort { which: PortKey::Tcp6, k: 0 },
        Op::SetClientInfo { name: "n".into(), version: "v".into(), build: None, k: 0 },
        Op::SetClientInfo { name: "name".into(), version: "1.0".into(), build: Some("b".repeat(150)), k: 0 }, // big
        Op::SetSocket { tcp: false, addr: v4, k: 0 },
        Op::SetSocket { tcp: false, addr: v6, k: 0 },
        Op::SetSocket { tcp: true, addr: v4, k: 1 },
        Op::SetSocket { tcp: true, addr: v6, k: 0 },
        Op::SetSocket { tcp: false, addr: "[::ffff:192.0.2.1]:9002".parse().unwrap(), k: 0 },
        Op::RemoveSocket { tcp: false, v6: false, k: 0 },
        Op::RemoveSocket { tcp: false, v6: true, k: 0 },
        Op::RemoveSocket { tcp: true, v6: false, k: 0 },
        Op::RemoveSocket { tcp: true, v6: true, k: 0 },
        Op::RemoveKey { key: b"eth2".to_vec(), k: 0 },
        Op::RemoveKey { key: b"absent".to_vec(), k: 0 }, // no-op removal
        Op::RemoveKey { key: b"id".to_vec(), k: 0 },     // unsupported scheme
        Op::RemoveKey { key: kn.clone(), k: 0 },
        Op::RemoveInsert { remove: vec![b"ip".to_vec(), b"udp".to_vec()], insert: vec![(b"tcp".to_vec(), vec![0x1f, 0x90]), (b"eth2".to_vec(), vec![9])], k: 0 },
        Op::RemoveInsert { remove: vec![b"eth2".to_vec()], insert: vec![(b"udp".to_vec(), vec![0, 1])], k: 0 }, // ill-typed
        Op::RemoveInsert { remove: vec![], insert: vec![(b"ip".to_vec(), vec![1, 2, 3, 4, 5])], k: 0 },       // ill-typed ip
        Op::RemoveInsert { remove: vec![b"tcp".to_vec()], insert: vec![(b"z".to_vec(), vec![0x62; 180])], k: 1 }, // oversize/other key
        Op::SetPublicKey { pk_of: 0, k: 0 },
        Op::SetPublicKey { pk_of: 1, k: 1 },
        Op::Redecode,
        Op::CloneSwap,
        Op::Reparse { prefix: false },
        Op::Reserde,
        Op::CloneFrom,
        // neighbours of reserved keys (a reserved name plus one character) with values that would be
        // ill-typed for the reserved key; a key whose RLP header takes the long form
        Op::Insert { key: b"id6".to_vec(), val: TVal::Str("hello".into()), k: 0 },
        Op::Insert { key: b"secp256k16".to_vec(), val: TVal::Bytes(vec![1, 2, 3]), k: 0 },
        Op::InsertRaw { key: b"ed255196".to_vec(), raw: vec![0xc1, 0x05], k: 0 },
        Op::RemoveInsert { remove: vec![], insert: vec![(b"tcp66".to_vec(), vec![0, 0, 9]), (b"ip4".to_vec(), vec![1])], k: 0 },
        Op::Insert { key: vec![b'k'; 56], val: TVal::U8(1), k: 0 },
        Op::Insert { key: b"parent".to_vec(), val: TVal::Record { list: false }, k: 0 },
        Op::Insert { key: b"secp256k1".to_vec(), val: TVal::Bytes(vec![]), k: 0 },
        Op::InsertRaw { key: b"ed25519".to_vec(), raw: vec![0x80], k: 0 },
        Op::RemoveInsert { remove: vec![], insert: vec![(b"secp256k1".to_vec(), vec![])], k: 0 },
        // the caller hands over the signer's own public-key entry (a re-key that "changes nothing" in the
        // key entry as far as the displaced value is concerned), by the other key and by the own key
        Op::RemoveInsert { remove: vec![], insert: vec![(kn.clone(), fam.ref_pk(&exhaustive_keys(fam)[1].0))], k: 1 },
        Op::RemoveInsert { remove: vec![b"udp".to_vec()], insert: vec![(kn.clone(), fam.ref_pk(&exhaustive_keys(fam)[0].0)), (b"udp".to_vec(), vec![7])], k: 0 },
        Op::Insert { key: kn.clone(), val: TVal::Bytes(fam.ref_pk(&exhaustive_keys(fam)[1].0)), k: 1 },
    ];
    if fam.scheme() == Scheme::Secp {
        a.push(Op::Insert { key: b"ed25519".to_vec(), val: TVal::Bytes(vec![5; 32]), k: 0 });
    } else {
        a.push(Op::Insert { key: b"secp256k1".to_vec(), val: TVal::Bytes(vec![2; 33]), k: 0 });
        // a valid point in the 65-byte SEC1 hybrid form (libsecp256k1 parses it, k256 does not) and in the
        // uncompressed form
        let pk = crypto::secp_pk_from_secret(&pool().secp[1]).unwrap();
        let u = crypto::secp_uncompressed(&pk).unwrap();
        let mut hybrid = vec![if u[63] & 1 == 1 { 7u8 } else { 6 }];
        hybrid.extend_from_slice(&u);
        a.push(Op::Insert { key: b"secp256k1".to_vec(), val: TVal::Bytes(hybrid.clone()), k: 0 });
        a.push(Op::InsertRaw { key: b"secp256k1".to_vec(), raw: rlp::encode_str(&hybrid), k: 0 });
        let mut unc = vec![4u8];
        unc.extend_from_slice(&u);
        a.push(Op::Insert { key: b"secp256k1".to_vec(), val: TVal::Bytes(unc), k: 0 });
    }
    a
}

/// Initial records of the exhaustive set: minimal; all reserved keys; near the size limit;
/// seq 2^64-2; seq 2^64-1.
pub fn exhaustive_inits(fam: FamId, secret: &[u8; 32]) -> Vec<Init> {
    let full: Vec<(Vec<u8>, Vec<u8>)> = vec![
        (b"eth2".to_vec(), rlp::encode_str(&[0xaa, 0xbb])),
        (b"ip".to_vec(), rlp::encode_str(&[127, 0, 0, 1])),
        (b"ip6".to_vec(), rlp::encode_str(&[0u8; 16])),
        (b"tcp".to_vec(), rlp::encode_uint(30303)),
        (b"tcp6".to_vec(), rlp::encode_uint(30304)),
        (b"udp".to_vec(), rlp::encode_uint(9000)),
        (b"udp6".to_vec(), rlp::encode_uint(9001)),
    ];
    let mut near = full.clone();
    fit_decoded(fam, secret, 127, &mut near, 298);
    vec![
        Init::Builder { calls: vec![] },
        Init::Decoded { seq: 1, pairs: full.clone() },
        Init::Decoded { seq: 127, pairs: near },
        Init::Decoded { seq: u64::MAX - 1, pairs: vec![(b"eth2".to_vec(), rlp::encode_str(&[1]))] },
        Init::Decoded { seq: u64::MAX, pairs: full },
    ]
}

pub fn exhaustive_keys(fam: FamId) -> Vec<Secret> {
    if fam == FamId::Big {
        // a 96-byte and a 66-byte public key
        let mut a = [0x42u8; 32];
        a[30] = 3;
        let mut b = [0x43u8; 32];
        b[30] = 2;
        return vec![Secret(a), Secret(b)];
    }
    let p = pool().of(fam.scheme());
    // a random-looking key and an edge scalar
    vec![Secret(p[p.len() - 1]), Secret(p[3 % p.len()])]
}

/// Records with MANY tiny pairs (one-byte keys and values: two bytes per pair), through the builder and
/// through successive inserts; pair counts around every plausible "reasonable maximum" (64, 75, 76, 80, ...).
pub fn many_pairs(quick: bool) -> Vec<History> {
    let mut out = Vec::new();
    let fams: &[FamId] = if quick { &[FamId::K256, FamId::Tiny] } else { &[FamId::K256, FamId::Ed, FamId::CombinedSecp, FamId::Tiny, FamId::Nano] };
    for fam in fams {
        let keys = exhaustive_keys(*fam);
        for n in [30usize, 62, 63, 64, 65, 73, 74, 75, 76, 77, 80, 85, 100, 127, 128] {
            let calls: Vec<BCall> = (0..n).map(|i| BCall::AddValue { key: vec![0x21 + i as u8], val: TVal::U8((i % 100) as u8 + 1) }).collect();
            out.push(History { fam: *fam, keys: keys.clone(), init: Init::Builder { calls }, ops: vec![Op::Redecode, Op::SetPort { which: PortKey::Udp, port: 1, k: 0 }], fault_at: None, alt_keys: vec![] });
        }
        let ops: Vec<Op> = (0..90usize).map(|i| Op::Insert { key: vec![0x21 + i as u8], val: TVal::U8(7), k: 0 }).chain([Op::Redecode]).collect();
        out.push(History { fam: *fam, keys: keys.clone(), init: Init::Builder { calls: vec![] }, ops, fault_at: None, alt_keys: vec![] });
    }
    out
}

/// Socket setters on records close to the limit that already hold the SAME port (and address) in the other
/// address family / the same one: every filler length in a window around the limit.
pub fn near_limit_sockets(quick: bool) -> Vec<History> {
    let mut out = Vec::new();
    let v6: SocketAddr = "[fe80::1]:9".parse().unwrap();
    let v4: SocketAddr = "10.0.0.1:9".parse().unwrap();
    for fam in [FamId::K256, FamId::Ed] {
        let keys = exhaustive_keys(fam);
        let fills: Vec<usize> = if quick { (125..=175).collect() } else { (100..=200).collect() };
        for l in fills {
            for (tcp, addr) in [(false, v6), (true, v6), (false, v4), (true, v4)] {
                out.push(History {
                    fam,
                    keys: keys.clone(),
                    init: Init::Decoded {
                        seq: 5,
                        pairs: vec![(b"ip".to_vec(), rlp::encode_str(&[10, 0, 0, 1])), (b"tcp".to_vec(), rlp::encode_uint(9)), (b"udp".to_vec(), rlp::encode_uint(9)), (b"zz".to_vec(), rlp::encode_str(&vec![0x7a; l]))],
                    },
                    ops: vec![Op::SetSocket { tcp, addr, k: 0 }],
                    fault_at: None,
                    alt_keys: vec![],
                });
            }
        }
    }
    out
}

/// Long histories that repeat a small cycle of calls several hundred times (internal counters,
/// accumulations, caches that are only refreshed every so often).
pub fn long_repeats(quick: bool) -> Vec<History> {
    let n = if quick { 300 } else { 1200 };
    let mut out = Vec::new();
    let fams: &[FamId] = if quick { &[FamId::K256, FamId::CombinedEd] } else { &ALL_FAMS };
    for fam in fams {
        let keys = exhaustive_keys(*fam);
        let cycles: Vec<Vec<Op>> = vec![
            vec![Op::SetPort { which: PortKey::Udp, port: 1, k: 0 }, Op::SetPort { which: PortKey::Udp, port: 2, k: 0 }],
            vec![
                Op::Insert { key: b"x".to_vec(), val: TVal::U8(1), k: 0 },
                Op::RemoveKey { key: b"x".to_vec(), k: 0 },
                Op::SetIp { ip: "10.0.0.1".parse().unwrap(), k: 1 },
                Op::CloneSwap,
            ],
            vec![Op::SetPort { which: PortKey::Tcp6, port: 9, k: 0 }],
            vec![Op::RemoveInsert { remove: vec![b"a".to_vec()], insert: vec![(b"a".to_vec(), vec![1]), (b"b".to_vec(), vec![2])], k: 0 }, Op::Redecode],
        ];
        for (ci, cyc) in cycles.into_iter().enumerate() {
            if quick && ci >= 2 && *fam != FamId::K256 {
                continue;
            }
            let ops: Vec<Op> = (0..n).map(|i| cyc[i % cyc.len()].clone()).collect();
            out.push(History { fam: *fam, keys: keys.clone(), init: Init::Builder { calls: vec![] }, ops, fault_at: None, alt_keys: vec![] });
        }
    }
    out
}

/// depth-1 enumeration (every alphabet operation from every initial record) for every family not in `done`
pub fn depth1_rest(done: &[FamId]) -> impl Iterator<Item = History> + Send {
    let done = done.to_vec();
    ALL_FAMS.into_iter().filter(move |f| !done.contains(f)).flat_map(|f| exhaustive(f, 1))
}

/// all op sequences of length <= depth over the alphabet, from every initial record
pub fn exhaustive(fam: FamId, depth: usize) -> impl Iterator<Item = History> + Send {
    let keys = exhaustive_keys(fam);
    let inits = exhaustive_inits(fam, &keys[0].0);
    let alpha = alphabet(fam);
    let n = alpha.len();
    let mut total = 0usize;
    let mut pw = 1usize;
    for _ in 0..=depth {
        total += pw;
        pw *= n;
    }
    let _ = wire::SEQ_BOUNDARY;
    inits.into_iter().flat_map(move |init| {
        let keys = keys.clone();
        let alpha = alpha.clone();
        (0..total).map(move |mut idx| {
            // decode idx into a sequence: lengths 0,1,..,depth
            let mut len = 0;
            let mut block = 1usize;
            while idx >= block {
                idx -= block;
                block *= alpha.len();
                len += 1;
            }
            let mut ops = Vec::with_capacity(len);
            for _ in 0..len {
                ops.push(alpha[idx % alpha.len()].clone());
                idx /= alpha.len();
            }
            History { fam, keys: keys.clone(), init: init.clone(), ops, fault_at: None, alt_keys: vec![] }
        })
    })
}
