#!/bin/sh
# runmutant.sh <patch> <ID> [<ID>...]: apply patch to the repo, run baseline tests + quick checks, revert.
# REPO / VERIF default to /repo and /verif; tools/detect_all.sh sets them to scratch clones when run under iso.sh.
REPO="${REPO:-/repo}"; VERIF="${VERIF:-/verif}"
patch="$(readlink -f "$1")"; shift
git -C "$REPO" diff --quiet || { echo "$REPO not clean"; exit 2; }
bak="$(mktemp -d /tmp/evidence.bak.XXXXXX)"; cp -r "$VERIF/evidence" "$bak/evidence"
trap 'git -C "$REPO" checkout -- . ; rm -rf "$VERIF/evidence"; mv "$bak/evidence" "$VERIF/evidence"; rm -rf "$bak"' EXIT INT TERM
git -C "$REPO" apply "$patch" || { echo "patch does not apply"; exit 2; }
if [ -z "$SKIP_TESTS" ]; then
  (cd "$REPO" && cargo test --offline 2>&1 | grep -E "^test result" | head -1)
fi
for id in "$@"; do
  out=$(cd "$VERIF" && VERIF_DIR="$VERIF" ./check "$id" ${TIER:-quick} 2>&1); code=$?
  echo "[$id] exit=$code $(echo "$out" | grep -E 'violation detail|INCONCLUSIVE|^OK' | head -1 | cut -c1-300)"
done
