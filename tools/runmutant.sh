#!/bin/sh
# runmutant.sh <patch> <ID> [<ID>...]: apply patch to /repo, run baseline tests + quick checks, revert.
patch="$(readlink -f "$1")"; shift
git -C /repo diff --quiet || { echo "/repo not clean"; exit 2; }
rm -rf /tmp/evidence.bak && cp -r /verif/evidence /tmp/evidence.bak
trap 'git -C /repo checkout -- . ; rm -rf /verif/evidence; mv /tmp/evidence.bak /verif/evidence' EXIT INT TERM
git -C /repo apply "$patch" || { echo "patch does not apply"; exit 2; }
if [ -z "$SKIP_TESTS" ]; then
  (cd /repo && cargo test --offline 2>&1 | grep -E "^test result" | head -1)
fi
for id in "$@"; do
  out=$(cd /verif && VERIF_DIR=/verif ./check "$id" ${TIER:-quick} 2>&1); code=$?
  echo "[$id] exit=$code $(echo "$out" | grep -E 'violation detail|INCONCLUSIVE|^OK' | head -1 | cut -c1-300)"
done
