#!/bin/sh
# detect_all.sh: every own mutant and every seeded change against the quick tier of the property it targets.
# Prints one line per patch; "MISS" when the targeted check stays green.  Uses $REPO (apply + revert);
# `tools/iso.sh det tools/detect_all.sh iso` runs it on scratch clones without touching /repo and /verif.
if [ "$1" = iso ]; then VERIF="$(pwd)"; REPO="$(dirname "$VERIF")/repo"; export VERIF REPO; fi
cd "${VERIF:-/verif}" || exit 2
# first pass with the main configuration only (VERIF_ONLY_MAIN=1), misses are re-run with both configurations
miss=0; n=0
run1() { # <patch> <id>
  out=$(SKIP_TESTS=1 VERIF_ONLY_MAIN=1 tools/runmutant.sh "$1" "$2" 2>&1 | tail -1)
  case "$out" in *"exit=1"*) ;; *) out=$(SKIP_TESTS=1 tools/runmutant.sh "$1" "$2" 2>&1 | tail -1);; esac
  echo "$out"
}
for f in mutants/*.diff; do
  id=$(basename $f | cut -c1-3 | tr a-z A-Z)
  out=$(run1 $f $id)
  n=$((n+1))
  case "$out" in *"exit=1"*) echo "ok   $f -> $id";; *) echo "MISS $f -> $id :: $out"; miss=$((miss+1));; esac
done
for d in seeded/*/; do
  name=$(basename $d); id=$(echo $name | cut -c1-3)
  out=$(run1 $d/patch.diff $id)
  n=$((n+1))
  case "$out" in *"exit=1"*) echo "ok   $d -> $id";; *) echo "MISS $d -> $id :: $out"; miss=$((miss+1));; esac
done
echo "patches=$n missed=$miss"
