#!/bin/sh
# detect_all.sh: every own mutant and every seeded change against the quick tier of the property it targets.
# Prints one line per patch; "MISS" when the targeted check stays green.  Uses $REPO (apply + revert);
# `tools/iso.sh det tools/detect_all.sh iso` runs it on scratch clones without touching /repo and /verif.
if [ "$1" = iso ]; then VERIF="$(pwd)"; REPO="$(dirname "$VERIF")/repo"; export VERIF REPO; fi
cd "${VERIF:-/verif}" || exit 2
miss=0; n=0
for f in mutants/*.diff; do
  id=$(basename $f | cut -c1-3 | tr a-z A-Z)
  out=$(SKIP_TESTS=1 tools/runmutant.sh $f $id 2>&1 | tail -1)
  n=$((n+1))
  case "$out" in *"exit=1"*) echo "ok   $f -> $id";; *) echo "MISS $f -> $id :: $out"; miss=$((miss+1));; esac
done
for d in seeded/*/; do
  name=$(basename $d); id=$(echo $name | cut -c1-3)
  out=$(SKIP_TESTS=1 tools/runmutant.sh $d/patch.diff $id 2>&1 | tail -1)
  n=$((n+1))
  case "$out" in *"exit=1"*) echo "ok   $d -> $id";; *) echo "MISS $d -> $id :: $out"; miss=$((miss+1));; esac
done
echo "patches=$n missed=$miss"
