#!/bin/sh
# isolated_run.sh <command...>: for `vp run --with-repo`: points the snapshot's harness at the
# snapshot of /repo ($VP_RUN_REPO) so that edits/mutants applied to /repo meanwhile do not disturb
# the run.  Results of such a run are not evidence (they are not run against /repo itself).
cd "$(dirname "$0")/.." || exit 2
repo="${VP_RUN_REPO:-/repo}"
sed -i "s|path = \"/repo\"|path = \"$repo\"|" harness/Cargo.toml noserde/Cargo.toml
echo "isolated run against $repo ($(git -C "$repo" log --format=%h -1 2>/dev/null))"
exec "$@"
