#!/bin/sh
# process_seed.sh <ID> <srcdir> <dest> <check IDs...>: confirm a seeded change, then run the given quick checks against it
id="$1"; src="$2"; dest="$3"; shift 3
/verif/tools/confirm_seed.sh "$id" "$src" "$dest" 2>&1 | grep -E "RESULT|CONFIRMED"
if [ -f /verif/seeded/$dest/patch.diff ]; then
  SKIP_TESTS=1 /verif/tools/runmutant.sh /verif/seeded/$dest/patch.diff "$@"
fi
