#!/bin/sh
# seeds.sh <from> <to>: every quick check under seeds from..to; prints only non-OK lines and a summary
cd "$(dirname "$0")/.." || exit 2
bad=0; n=0
for s in $(seq $1 $2); do
  for id in C01 C02 C03 C04 C05 C06 C07 C08 C09 C10 C11 C12 C13 C14 C15 C16 C17; do
    out=$(VERIF_SEED=$s ./check $id quick 2>&1); code=$?; n=$((n+1))
    if [ $code -ne 0 ]; then bad=$((bad+1)); echo "seed=$s [$id] exit=$code $(echo "$out" | grep -E 'VIOLATION|INCONCLUSIVE|violation detail' | head -2 | tr '\n' ' ' | cut -c1-300)"; fi
  done
done
echo "runs=$n non-zero=$bad"
