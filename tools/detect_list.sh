#!/bin/sh
# detect_list.sh <file with seeded-change names> [iso]: the listed seeded changes against the quick tier (main
# configuration, then all) of the property they target, under the VERIF_SEED of the environment.  Used to
# check that "caught as generated" results do not depend on one PRNG seed.
list="$(readlink -f "$1")"
if [ "$2" = iso ]; then VERIF="$(pwd)"; REPO="$(dirname "$VERIF")/repo"; export VERIF REPO; fi
cd "${VERIF:-/verif}" || exit 2
miss=0; n=0
for name in $(cat "$list"); do
  id=$(echo $name | cut -c1-3)
  out=$(SKIP_TESTS=1 VERIF_ONLY_MAIN=1 tools/runmutant.sh seeded/$name/patch.diff $id 2>&1 | tail -1)
  case "$out" in *"exit=1"*) ;; *) out=$(SKIP_TESTS=1 tools/runmutant.sh seeded/$name/patch.diff $id 2>&1 | tail -1);; esac
  n=$((n+1))
  case "$out" in *"exit=1"*) echo "ok   $name";; *) echo "MISS $name :: $out"; miss=$((miss+1));; esac
done
echo "patches=$n missed=$miss seed=${VERIF_SEED:-default}"
