#!/usr/bin/env python3
"""mkmutant.py <name> <file-under-/repo> <old> <new> [<file> <old> <new> ...]: writes /verif/mutants/<name>.diff (does not leave /repo modified)."""
import sys, subprocess
name = sys.argv[1]
args = sys.argv[2:]
assert len(args) % 3 == 0
subprocess.check_call(["git", "-C", "/repo", "diff", "--quiet"])
try:
    for i in range(0, len(args), 3):
        f, old, new = args[i:i+3]
        p = "/repo/" + f
        s = open(p).read()
        assert s.count(old) >= 1, f"pattern not found in {f}: {old!r}"
        s = s.replace(old, new, 1)
        open(p, "w").write(s)
    d = subprocess.run(["git", "-C", "/repo", "diff"], capture_output=True, text=True).stdout
    open(f"/verif/mutants/{name}.diff", "w").write(d)
    print("wrote", name, len(d.splitlines()), "lines")
finally:
    subprocess.check_call(["git", "-C", "/repo", "checkout", "--", "."])
