#!/usr/bin/env python3
"""Regenerates /verif/MANIFEST.json from the table below (keeps it schema-valid)."""
import json, subprocess, os
here = os.path.dirname(os.path.dirname(os.path.abspath(__file__)))

CHECKS = {
 # id: (category, technique, text, note, design_ref)
 "C01": ("exploration", "property-based testing + bounded-exhaustive tampering: independently signed records, exhaustive bit flips/truncations, field-level tampers, decoded under 4 key types; oracle = independent signature verifier over the reported fields",
         "Every accepted record is re-verified by an independent verifier against the key and fields the record itself reports; all single-bit flips and truncations of selected records and 16 field-level tampers (incl. high-S twin) are enumerated, tens of thousands more sampled. Shows the verification step is wired to the right key, bytes and fields; cannot show absence of forgeries.",
         "ECDSA/Ed25519 unforgeability; libsecp256k1+k256 (direct) as verifier; ed25519-dalek is the only Ed25519 implementation available", "5/C01"),
 "C02": ("exploration", "differential property-based testing against a reference decoder written from the statement, on structurally mutated records re-signed by an independent signer",
         "Differential test of decode/from_str under all four key types against an independent reference decoder, on valid records and 39 kinds of structural mutation that are re-signed (over the literal sequence and over lenient reconstructions) so that only the structural rule can reject; size boundary 299..303 by construction. Sampled, with every mutation x reconstruction cell instantiated.",
         "reference decoder is the oracle (own RLP/keccak; ECDSA by libsecp256k1 cross-checked with k256); open regions (65-byte keys, malformed inner list bytes, list-typed other-scheme entry) excluded and counted", "5/C02"),
 "C05": ("exploration", "stateful property-based testing (history = generated call sequence, interpreter, invariant after every step) + bounded-exhaustive sequences; oracle = independent verifier and reference decoder",
         "After every Ok step of generated call histories over all 22 mutators (arbitrary, ill-typed and malformed arguments; own or other key; six key families incl. a custom variable-length-signature scheme) the record is re-verified independently, re-decoded by the library and by the reference decoder, and its node id / key entry are compared with the signing key. All sequences of length <= 2 (thorough: 3) over a 46-operation alphabet from 5 boundary records are enumerated.",
         "signer keys of the record's own scheme; one recorded known finding (CombinedKey ed25519 signer + valid secp256k1 entry) is excluded by a classifier and counted", "5/C05"),
 "C06": ("fault_enumeration", "fault injection at every signing call of generated and bounded-exhaustive call histories; oracle = observational equality of pre- and post-state on every Err",
         "Each explored history is run fault-free and then once per signing call with that call failing (EnrKey wrapper), in addition to the naturally failing calls (size, sequence overflow, ill-typed reserved values, unsupported id). Every Err must leave seq, node id, signature, pairs, encoding and key unchanged and the record verifying. The evidence lists the (mutator x cause) cells reached; the health check requires the reachable ones.",
         "faults are injected at the signer only (the only fallible dependency of an update); panics are C03's", "5/C06"),
 "C07": ("exploration", "stateful property-based testing with boundary enumeration of sequence numbers; oracle = arithmetic on the observed pre-state + independent parse of the encoding",
         "Every boundary sequence number is combined with every alphabet operation; random histories add compound updates and set_seq. +1 per successful update, exact set_seq, failure (with the right error kind when the model finds no other cause) at 2^64-1, and wire round trip of the number are checked at every step.",
         "'no other cause' comes from the map model", "5/C07"),
 "C08": ("exploration", "model-based stateful property-based testing: sorted-map reference model predicts pairs, return values and admissible error kinds per step from the observed pre-state",
         "A sorted-map model written from the statement predicts, for every step of generated and bounded-exhaustive histories, the resulting pairs, the return value and the admissible error kinds; silent regions are admitted either way. Every mutator is exercised >= 200 times per quick run (health check).",
         "model is the oracle; regions where the listed properties are silent (other scheme's key name, malformed inner list bytes, CombinedKey precedence, variable-length signatures near the limit) admit either outcome", "5/C08"),
 "C09": ("exploration", "size sweep by construction (filler solved so the model result is exactly N bytes, for every mutator / family / seq class / N in the window) + stateful random histories; oracle = reference-encoder size model",
         "For every mutator and the builder, every built-in key family, every N in the window (quick 294..=306, thorough 280..=320) and sequence numbers whose encoding does / does not grow, a record is constructed whose update result is exactly N bytes; refusal must happen iff N > 300 (builder: all > 300, nothing <= 292). Every Ok record of all histories (incl. the variable-length-signature scheme) must encode to <= 300 bytes with size() exact. The window is covered completely where reachable; unreachable cells are counted.",
         "result sizes computed by the reference encoder; exact refusal only claimed for 64-byte signatures, as the property says", "5/C09"),
 "C10": ("exploration", "property-based testing with an edge-key pool (mined leading-zero coordinates) over histories and wire records; oracle = own keccak256 over independently decompressed key",
         "Node ids of every built, updated and decoded record are compared with a hand-written keccak256 over the key decompressed by libsecp256k1 (cross-checked with k256), for every pool key (edge scalars, mined leading-zero x / y, odd/even y) and all key families; invariance under same-key updates and injectivity across keys are checked inside each history.",
         "keccak256 hand-written and self-checked against fixed vectors and the sha3 crate; decompression by libsecp256k1/k256", "5/C10"),
 "C16": ("exploration", "property-based testing: exhaustive slice lengths + seeded random strings vs a reference hex parser, proptest shrinking",
         "Every slice length 0..=64 and patterned 32-byte values are enumerated; tens of thousands of mutated hex strings and JSON texts are compared with a reference parser written from the statement. Complete for the length domain, sampled for strings.",
         "serde_json as JSON implementation; strings sampled, not exhaustive", "5/C16"),
 "C17": ("exploration", "property-based testing: boundary-enumerated and random secrets vs independent key derivation and verification",
         "All boundary scalars (0..3, n-3..n+3, 2^256-1, single-bit patterns) and every ed25519 length 0..=64 are enumerated, random secrets sampled; acceptance is compared with an own 256-bit comparison, public keys with libsecp256k1 / curve25519-dalek derivations, signatures with an independent verifier.",
         "libsecp256k1 and curve25519-dalek derivations trusted (cross-checked with k256 and RFC 8032 vectors at start-up)", "5/C17"),
}

def main():
    props = [json.loads(l) for l in open(os.path.join(here, "properties.jsonl"))]
    ids = [p["id"] for p in props]
    hooks = subprocess.run(["git", "-C", "/repo", "log", "--format=%H %s"], capture_output=True, text=True).stdout.splitlines()
    hook_commits = [l.split()[0] for l in hooks if " verif hook" in l]
    checks = []
    for i in ids:
        if i not in CHECKS:
            continue
        cat, tech, text, note, ref = CHECKS[i]
        checks.append({
            "property_id": i,
            "quick_cmd": f"./check {i} quick",
            "thorough_cmd": f"./check {i} thorough",
            "evidence_file": f"/verif/evidence/{i}.json",
            "replay_cmd_template": f"./check {i} --replay {{path}}",
            "engine": "enrcheck",
            "level_claimed": {"category": cat, "text": text, "design_ref": f"DESIGN.md section {ref}"},
            "level_note": note,
            "technique": tech,
        })
    na = [{"property_id": i, "reason": "check not built yet (work in progress; property is addressable by this technique, see DESIGN.md section 5)"} for i in ids if i not in CHECKS]
    m = {
        "version": 1,
        "setup_cmd": "./setup.sh",
        "hooks": {
            "guard": "cargo feature `verif` of crate enr",
            "enable": "harness/Cargo.toml depends on enr with features [k256, serde, ed25519, rust-secp256k1, verif]",
            "baseline_off_cmd": "cd /repo && cargo test --workspace --no-fail-fast --offline",
            "source_commits": hook_commits,
            "add_only": True,
        },
        "engines": [
            {"name": "enrcheck", "path": "/verif/harness", "serves_properties": [c["property_id"] for c in checks],
             "kind_free_text": "Rust harness: generators over an entropy choice source driven by proptest TestRunner (seeded, shrinking) plus bounded-exhaustive enumeration; independent reference model (RLP, keccak, base64, record decoder, map model); replay of saved cases"},
        ],
        "checks": checks,
        "not_applicable": na,
        "notes": "All checks rebuild the harness against /repo's working tree (path dependency) before running. Exit 0 = held, 1 = VIOLATION line, 2 = cannot decide (build failure / generator health).",
    }
    json.dump(m, open(os.path.join(here, "MANIFEST.json"), "w"), indent=1)
    print("wrote MANIFEST.json with", len(checks), "checks")

main()
