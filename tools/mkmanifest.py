#!/usr/bin/env python3
"""Regenerates /verif/MANIFEST.json from the table below (keeps it schema-valid)."""
import json, subprocess, os
here = os.path.dirname(os.path.dirname(os.path.abspath(__file__)))

CHECKS = {
 # id: (category, technique, text, note, design_ref)
 "C16": ("exploration", "property-based testing: exhaustive slice lengths + seeded random strings vs a reference hex parser, proptest shrinking",
         "Every slice length 0..=64 and patterned 32-byte values are enumerated; tens of thousands of mutated hex strings and JSON texts are compared with a reference parser written from the statement. Complete for the length domain, sampled for strings.",
         "serde_json as JSON implementation; strings sampled, not exhaustive", "5/C16"),
 "C17": ("exploration", "property-based testing: boundary-enumerated and random secrets vs independent key derivation and verification",
         "All boundary scalars (0..3, n-3..n+3, 2^256-1, single-bit patterns) and every ed25519 length 0..=64 are enumerated, random secrets sampled; acceptance is compared with an own 256-bit comparison, public keys with libsecp256k1 / curve25519-dalek derivations, signatures with an independent verifier.",
         "libsecp256k1 and curve25519-dalek derivations trusted (cross-checked with k256 and RFC 8032 vectors at start-up)", "5/C17"),
}

def main():
    props = [json.loads(l) for l in open(os.path.join(here, "properties.jsonl"))]
    ids = [p["id"] for p in props]
    hooks = subprocess.run(["git", "-C", "/repo", "log", "--format=%H %s"], capture_output=True, text=True).stdout.splitlines()
    hook_commits = [l.split()[0] for l in hooks if " verif hook" in l]
    checks = []
    for i in ids:
        if i not in CHECKS:
            continue
        cat, tech, text, note, ref = CHECKS[i]
        checks.append({
            "property_id": i,
            "quick_cmd": f"./check {i} quick",
            "thorough_cmd": f"./check {i} thorough",
            "evidence_file": f"/verif/evidence/{i}.json",
            "replay_cmd_template": f"./check {i} --replay {{path}}",
            "engine": "enrcheck",
            "level_claimed": {"category": cat, "text": text, "design_ref": f"DESIGN.md section {ref}"},
            "level_note": note,
            "technique": tech,
        })
    na = [{"property_id": i, "reason": "check not built yet (work in progress; property is addressable by this technique, see DESIGN.md section 5)"} for i in ids if i not in CHECKS]
    m = {
        "version": 1,
        "setup_cmd": "./setup.sh",
        "hooks": {
            "guard": "cargo feature `verif` of crate enr",
            "enable": "harness/Cargo.toml depends on enr with features [k256, serde, ed25519, rust-secp256k1, verif]",
            "baseline_off_cmd": "cd /repo && cargo test --workspace --no-fail-fast --offline",
            "source_commits": hook_commits,
            "add_only": True,
        },
        "engines": [
            {"name": "enrcheck", "path": "/verif/harness", "serves_properties": [c["property_id"] for c in checks],
             "kind_free_text": "Rust harness: generators over an entropy choice source driven by proptest TestRunner (seeded, shrinking) plus bounded-exhaustive enumeration; independent reference model (RLP, keccak, base64, record decoder, map model); replay of saved cases"},
        ],
        "checks": checks,
        "not_applicable": na,
        "notes": "All checks rebuild the harness against /repo's working tree (path dependency) before running. Exit 0 = held, 1 = VIOLATION line, 2 = cannot decide (build failure / generator health).",
    }
    json.dump(m, open(os.path.join(here, "MANIFEST.json"), "w"), indent=1)
    print("wrote MANIFEST.json with", len(checks), "checks")

main()
