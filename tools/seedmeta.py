#!/usr/bin/env python3
"""seedmeta.py <ID> <detected_by comma list> [note]: record confirmation + detection results in /verif/seeded/<ID>/meta.json"""
import json, sys
i = sys.argv[1]; det = [x for x in sys.argv[2].split(",") if x]; note = sys.argv[3] if len(sys.argv) > 3 else ""
p = f"/verif/seeded/{i}/meta.json"; m = json.load(open(p))
m["breaks_property"] = m.get("property", i)
m["confirmed"] = {"how": "tools/confirm_seed.sh: fresh worktree of /repo HEAD; demo passes without patch; patch applies; `cargo test --workspace --no-fail-fast --offline` passes with patch; `cargo build --all-features` ok; demo fails with patch", "result": "confirmed"}
m["checks_run"] = "tools/runmutant.sh seeded/%s/patch.diff <IDs> (git -C /repo apply; ./check <ID> quick; git -C /repo checkout -- .)" % i
m["detected_by_quick_checks"] = det
if note: m["note"] = note
json.dump(m, open(p, "w"), indent=1)
print("ok", i, det)
