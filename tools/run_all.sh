#!/bin/sh
# run_all.sh [quick|thorough]: every check once; summary lines only
cd "$(dirname "$0")/.." || exit 2
tier="${1:-quick}"
rc=0
for id in C01 C02 C03 C04 C05 C06 C07 C08 C09 C10 C11 C12 C13 C14 C15 C16 C17; do
  out=$(./check $id $tier 2>&1); code=$?
  echo "[$id] exit=$code $(echo "$out" | grep -E '^OK|VIOLATION|INCONCLUSIVE|violation detail' | head -2 | tr '\n' ' ' | cut -c1-260)"
  [ $code -ne 0 ] && rc=1
done
exit $rc
