#!/bin/sh
# iso.sh <name> <command...>: run a command in a scratch clone of /verif (HEAD) pointed at a scratch
# clone of /repo (HEAD), so that it is not disturbed by (and does not disturb) work in /repo and /verif.
# Scratch: /tmp/iso-<name>; remove it when done.  Not evidence.
name="$1"; shift
d=/tmp/iso-$name
rm -rf "$d"; mkdir -p "$d"
git clone -q /repo "$d/repo" && git clone -q /verif "$d/verif" || exit 2
sed -i "s|path = \"/repo\"|path = \"$d/repo\"|" "$d/verif/harness/Cargo.toml" "$d/verif/noserde/Cargo.toml"
cd "$d/verif" && exec "$@"
