#!/usr/bin/env python3
"""Automated mutation sweep over /repo's library source (not part of any registered check).

Works on scratch copies only (default /tmp/msweep/{repo,harness,verif}); /repo and /verif are not
touched.  For every single-site mutant that compiles, the quick tier of every property is run
(most-likely killers first, stopping at the first kill).  Survivors are written to
<scratch>/survivors.jsonl together with whether the baseline tests still pass.

usage: mutsweep.py [--scratch DIR] [--files a.rs,b.rs] [--limit N] [--shard i/n] [--threads T]
"""
import argparse, json, os, re, shutil, subprocess, sys, time

ORDER = ["C08", "C05", "C02", "C14", "C09", "C01", "C03", "C04", "C07", "C06", "C10", "C11", "C12", "C13", "C15", "C16", "C17"]

def sh(cmd, cwd=None, env=None, timeout=None):
    return subprocess.run(cmd, shell=True, cwd=cwd, env=env, capture_output=True, text=True, timeout=timeout)

def code_region(path, text):
    """line indexes that are library code (not tests module, not comments)"""
    lines = text.split("\n")
    end = len(lines)
    for i, l in enumerate(lines):
        if l.strip().startswith("#[cfg(test)]"):
            end = i
            break
    out = []
    for i in range(end):
        st = lines[i].strip()
        if not st or st.startswith("//") or st.startswith("#[") or st.startswith("#!["):
            continue
        out.append(i)
    return lines, out

REPL = [
    (r" >= ", " > "), (r" > ", " >= "), (r" <= ", " < "), (r" < ", " <= "),
    (r" == ", " != "), (r" != ", " == "), (r" && ", " || "), (r" \|\| ", " && "),
    (r"MAX_ENR_SIZE\b(?! *:)", "(MAX_ENR_SIZE + 1)"), (r"MAX_ENR_SIZE\b(?! *:)", "(MAX_ENR_SIZE - 1)"),
    (r"checked_add\(1\)", "checked_add(2)"), (r"\+ 8 >", "+ 9 >"), (r"\+ 8 >", "+ 7 >"),
    (r"\b4 =>", "5 =>"), (r"\b16 =>", "15 =>"), (r"\b2 =>", "1 =>"), (r"\b3 =>", "4 =>"),
    (r"> 32\b", "> 33"), (r"< 32\b", "< 31"), (r"\[0\.\.4\]", "[0..6]"), (r"len\(\) - 4", "len() - 6"),
    (r"\btrue\b", "false"), (r"\bfalse\b", "true"),
    (r"\bTCP_ENR_KEY\b", "TCP6_ENR_KEY"), (r"\bTCP6_ENR_KEY\b", "TCP_ENR_KEY"),
    (r"\bUDP_ENR_KEY\b", "UDP6_ENR_KEY"), (r"\bUDP6_ENR_KEY\b", "UDP_ENR_KEY"),
    (r"\bIP_ENR_KEY\b", "IP6_ENR_KEY"), (r"\bIP6_ENR_KEY\b", "IP_ENR_KEY"),
    (r"\budp4\(\)", "tcp4()"), (r"\budp6\(\)", "tcp6()"), (r"\bip4\(\)", "ip6_as4()"),
    (r"Ok\(previous_value\)", "Ok(None)"), (r"\.ok\(\)\)", ".ok().map(|v| v.wrapping_add(1)))"),
    (r"b\"v4\"", "b\"v5\""), (r"\"enr:\"", "\"ENR:\""), (r"\"0x\"", "\"0X\""),
    (r"URL_SAFE_NO_PAD", "base64::engine::general_purpose::URL_SAFE"),
    (r"payload_length", "payload_length.saturating_sub(0).max(0) + 0 * 1 + (1 - 1)"),  # equivalent: control
    (r"self\.seq == other\.seq && ", ""), (r" && self\.signature == other\.signature", ""),
    (r"prev >= key", "prev > key"), (r"is_empty\(\)", "len() == 1"),
    (r"\(removed, inserted\)", "(inserted, removed)"),
    (r"new_enr\.seq = seq;", "new_enr.seq = seq.max(1);"),
    (r"SocketAddrV6::new\(ip6, (\w+), 0, 0\)", r"SocketAddrV6::new(ip6, \1, 0, 1)"),
    (r"\[name, version\]", "[version, name]"),
]
DELETE = [r"\.insert\(", r"\.remove\(", r"\.sign\(", r"zeroize\(\);", r"node_id = ", r"\*self = new_enr;", r"return Err\(", r"\?;$"]

def mutants_for(path, text):
    lines, idxs = code_region(path, text)
    out = []
    for i in idxs:
        l = lines[i]
        for pat, rep in REPL:
            for m in re.finditer(pat, l):
                nl = l[:m.start()] + m.expand(rep) + l[m.end():]
                if nl != l:
                    out.append((i, l, nl, f"{pat} -> {rep}"))
        st = l.strip()
        if st.endswith(";") and any(re.search(p, st) for p in DELETE) and not st.startswith("let ") and not st.startswith("use "):
            out.append((i, l, "", "delete statement"))
    return lines, out

def main():
    ap = argparse.ArgumentParser()
    ap.add_argument("--scratch", default="/tmp/msweep")
    ap.add_argument("--files", default="src/lib.rs,src/builder.rs,src/node_id.rs,src/keys/combined.rs,src/keys/k256_key.rs,src/keys/rust_secp256k1.rs,src/keys/ed25519.rs")
    ap.add_argument("--limit", type=int, default=0)
    ap.add_argument("--shard", default="0/1")
    ap.add_argument("--threads", default="16")
    ap.add_argument("--verif", default="/verif")
    a = ap.parse_args()
    si, sn = [int(x) for x in a.shard.split("/")]
    S = a.scratch
    repo, har, vdir = f"{S}/repo", f"{S}/harness", f"{S}/verif"
    os.makedirs(S, exist_ok=True)
    for d in (repo, har, vdir):
        shutil.rmtree(d, ignore_errors=True)
    sh(f"git -C /repo worktree prune; git clone -q /repo {repo}")
    shutil.copytree(f"{a.verif}/harness", har, ignore=shutil.ignore_patterns("target", "build.log"))
    ct = open(f"{har}/Cargo.toml").read().replace('path = "/repo"', f'path = "{repo}"')
    open(f"{har}/Cargo.toml", "w").write(ct)
    os.makedirs(vdir, exist_ok=True)
    for d in ("regress", "known"):
        if os.path.isdir(f"{a.verif}/{d}"):
            shutil.copytree(f"{a.verif}/{d}", f"{vdir}/{d}")
    shutil.copy(f"{a.verif}/known_findings.json", vdir)
    env = dict(os.environ, CARGO_NET_OFFLINE="true", CARGO_TARGET_DIR=f"{S}/target", VERIF_THREADS=a.threads)
    r = sh("cargo build --release --offline", cwd=har, env=env)
    if r.returncode != 0:
        print(r.stderr[-2000:]); sys.exit(2)
    binp = f"{S}/target/release/enrcheck"
    allm = []
    for f in a.files.split(","):
        text = open(f"{repo}/{f}").read()
        lines, ms = mutants_for(f, text)
        for m in ms:
            allm.append((f, m))
    allm = [m for k, m in enumerate(allm) if k % sn == si]
    if a.limit:
        allm = allm[: a.limit]
    print(f"{len(allm)} candidate mutants", flush=True)
    surv = open(f"{S}/survivors.jsonl", "a")
    log = open(f"{S}/sweep.log", "a")
    stats = {"candidates": len(allm), "compiled": 0, "killed": 0, "survived": 0, "killed_by": {}}
    for k, (f, (i, old, new, desc)) in enumerate(allm):
        p = f"{repo}/{f}"
        orig = open(p).read()
        lines = orig.split("\n")
        assert lines[i] == old
        lines[i] = new
        open(p, "w").write("\n".join(lines))
        try:
            r = sh("cargo build --release --offline", cwd=har, env=env, timeout=600)
            if r.returncode != 0:
                log.write(f"{k} {f}:{i+1} [{desc}] does not compile\n"); log.flush()
                continue
            stats["compiled"] += 1
            killer = None
            inconcl = []
            for pid in ORDER:
                try:
                    rr = sh(f"{binp} {pid} quick --verif-dir {vdir}", env=env, timeout=900)
                    rc = rr.returncode
                except subprocess.TimeoutExpired:
                    rc = 2
                if rc == 1 or rc not in (0, 2):
                    killer = pid if rc == 1 else f"{pid}(crash rc={rc})"
                    break
                if rc == 2:
                    inconcl.append(pid)
            if killer:
                stats["killed"] += 1
                stats["killed_by"][killer] = stats["killed_by"].get(killer, 0) + 1
                log.write(f"{k} {f}:{i+1} [{desc}] killed by {killer}\n"); log.flush()
            else:
                bt = sh("cargo test --offline 2>&1 | grep -E '^test result' | head -1", cwd=repo, env=dict(env, CARGO_TARGET_DIR=f"{S}/target-tests"))
                stats["survived"] += 1
                rec = {"file": f, "line": i + 1, "old": old.strip(), "new": new.strip(), "desc": desc, "baseline": bt.stdout.strip(), "inconclusive": inconcl}
                surv.write(json.dumps(rec) + "\n"); surv.flush()
                log.write(f"{k} {f}:{i+1} [{desc}] SURVIVED ({bt.stdout.strip()})\n"); log.flush()
        finally:
            open(p, "w").write(orig)
        if k % 10 == 0:
            print(k, json.dumps(stats), flush=True)
    print("DONE", json.dumps(stats), flush=True)
    json.dump(stats, open(f"{S}/stats.json", "w"), indent=1)

main()
