#!/bin/sh
# confirm_seed.sh <ID> [seed-dir]: independently confirm a seeded change produced in /tmp/seed-<ID>/OUT
#  - patch applies to a clean checkout of /repo HEAD
#  - baseline suite passes with the patch
#  - demo passes without the patch and fails with it
# then copies patch.diff, demo, meta.json to /verif/seeded/<ID>/ and removes the confirm worktree.
id="$1"; src="${2:-/tmp/seed-$id/OUT}"; dest="${3:-$id}"
w=/tmp/confirm-$id
export CARGO_TARGET_DIR=/tmp/confirm-target CARGO_NET_OFFLINE=true
git -C /repo worktree remove --force $w 2>/dev/null
git -C /repo worktree add -q --detach $w HEAD || exit 2
demo=$(ls $src/*.rs | head -1)
democmd=$(python3 -c "import json;print(json.load(open('$src/meta.json')).get('demo_cmd','cargo test --offline --test seed_demo'))")
echo "demo file: $demo ; demo cmd: $democmd"
cd $w
name=$(basename $demo)
cp $demo tests/$name
echo "--- demo WITHOUT patch (must pass)"
sh -c "$democmd" >/tmp/confirm-$id.nopatch.log 2>&1; a=$?
tail -3 /tmp/confirm-$id.nopatch.log
rm tests/$name
git apply $src/patch.diff || { echo "PATCH DOES NOT APPLY"; exit 2; }
echo "--- baseline WITH patch (must pass)"
cargo test --workspace --no-fail-fast --offline >/tmp/confirm-$id.base.log 2>&1; b=$?
grep -E "^test result" /tmp/confirm-$id.base.log
cargo build --offline --all-features >/dev/null 2>&1; bf=$?
cp $demo tests/$name
echo "--- demo WITH patch (must fail)"
sh -c "$democmd" >/tmp/confirm-$id.patch.log 2>&1; c=$?
grep -E "^test result|panicked" /tmp/confirm-$id.patch.log | head -5
cd /
git -C /repo worktree remove --force $w
echo "RESULT id=$id demo_without_patch_exit=$a baseline_with_patch_exit=$b allfeatures_build_exit=$bf demo_with_patch_exit=$c"
if [ $a -eq 0 ] && [ $b -eq 0 ] && [ $bf -eq 0 ] && [ $c -ne 0 ]; then
  mkdir -p /verif/seeded/$dest && cp $src/patch.diff $demo $src/meta.json /verif/seeded/$dest/ && echo "CONFIRMED -> /verif/seeded/$dest"
else
  echo "NOT CONFIRMED"
fi
