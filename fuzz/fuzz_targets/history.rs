#![no_main]
// entropy -> call history -> history oracles C03, C04(b), C05-C10, C14, C15.
use libfuzzer_sys::fuzz_target;

fuzz_target!(|data: &[u8]| {
    enrverif::fuzzglue::run_history(data);
});
