#![no_main]
// entropy -> record spec + structural mutation + signing variant -> re-signed input / mutated text.
// Oracles: C01, C02, C04(a), C11, C12, C13 on the generated case.
use libfuzzer_sys::fuzz_target;

fuzz_target!(|data: &[u8]| {
    enrverif::fuzzglue::run_struct(data);
});
