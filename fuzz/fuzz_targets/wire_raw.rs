#![no_main]
// bytes -> decode under four key types, from_str of their base64, suffix variants.
// Oracles (selected by ENR_FUZZ_PROPS, default all): C01, C02, C03, C04(a), C11, C13.
use libfuzzer_sys::fuzz_target;

fuzz_target!(|data: &[u8]| {
    enrverif::fuzzglue::run_raw(data);
});
