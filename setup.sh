#!/bin/sh
# offline build of the harness (and, for the thorough tier, the fuzz targets are built on demand)
cd "$(dirname "$0")" || exit 2
export CARGO_NET_OFFLINE=true
mkdir -p evidence replays
cd harness && cargo build --release --offline
