#!/bin/sh
# offline build of the harness and (best effort) of the libFuzzer targets used by the thorough tier
cd "$(dirname "$0")" || exit 2
export CARGO_NET_OFFLINE=true
mkdir -p evidence replays
(cd harness && cargo build --release --offline) || exit 1
# other configurations (see ./check): plain release profile with enr without / with rust-secp256k1; minimal (no built-in key type)
(cd harness && cargo build --profile plain --no-default-features --features builtin,plainprofile --target-dir target-plain --offline) || exit 1
(cd harness && cargo build --release --no-default-features --target-dir target-min --offline) || exit 1
(cd harness && cargo build --release --no-default-features --features builtin --target-dir target-k256dbg --offline) || exit 1
(cd harness && cargo build --profile plain --features plainprofile --target-dir target-plain-all --offline) || exit 1
(cd noserde && cargo build --release --offline) || exit 1
# thorough tier only; a failure here is not fatal (the fuzz stage then reports itself unavailable)
(cd harness && cargo +nightly fuzz build --fuzz-dir "$(pwd)/../fuzz" >/dev/null 2>&1) || echo "note: fuzz targets not built (thorough tier will skip the libFuzzer stage)"
exit 0
