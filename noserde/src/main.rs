//! Stand-alone checks against enr built without `serde` (see Cargo.toml).  Usage:
//!   noserde <C16|C12|C03> quick|thorough      exit 0 held / 1 VIOLATION line printed
//!   noserde <ID> --replay <file>              file = one line: "<kind> <hex>"
use enr::{Enr, EnrKey, EnrPublicKey, NodeId, SigningError};
use std::collections::BTreeMap;
use std::panic::{catch_unwind, AssertUnwindSafe};

fn hex(b: &[u8]) -> String {
    const D: &[u8; 16] = b"0123456789abcdef";
    let mut s = String::with_capacity(b.len() * 2);
    for x in b {
        s.push(D[(x >> 4) as usize] as char);
        s.push(D[(x & 15) as usize] as char);
    }
    s
}
fn unhex(s: &str) -> Vec<u8> {
    (0..s.len() / 2).map(|i| u8::from_str_radix(&s[2 * i..2 * i + 2], 16).unwrap()).collect()
}
/// splitmix64: deterministic case generation from VERIF_SEED
struct Rng(u64);
impl Rng {
    fn next(&mut self) -> u64 {
        self.0 = self.0.wrapping_add(0x9e3779b97f4a7c15);
        let mut z = self.0;
        z = (z ^ (z >> 30)).wrapping_mul(0xbf58476d1ce4e5b9);
        z = (z ^ (z >> 27)).wrapping_mul(0x94d049bb133111eb);
        z ^ (z >> 31)
    }
    fn bytes(&mut self, n: usize) -> Vec<u8> {
        (0..n).map(|_| self.next() as u8).collect()
    }
}
const B64: &[u8; 64] = b"ABCDEFGHIJKLMNOPQRSTUVWXYZabcdefghijklmnopqrstuvwxyz0123456789-_";
fn b64(data: &[u8]) -> String {
    let mut out = String::new();
    for ch in data.chunks(3) {
        let n = (ch[0] as u32) << 16 | (*ch.get(1).unwrap_or(&0) as u32) << 8 | *ch.get(2).unwrap_or(&0) as u32;
        out.push(B64[(n >> 18) as usize & 63] as char);
        out.push(B64[(n >> 12) as usize & 63] as char);
        if ch.len() > 1 {
            out.push(B64[(n >> 6) as usize & 63] as char);
        }
        if ch.len() > 2 {
            out.push(B64[n as usize & 63] as char);
        }
    }
    out
}

// ---- a toy key type (no security claim): 4-byte public key under "t", 6-byte signature = mix(pk, msg)
fn mix(parts: &[&[u8]]) -> [u8; 8] {
    let mut h: u64 = 0xcbf29ce484222325;
    for p in parts {
        for b in *p {
            h = (h ^ *b as u64).wrapping_mul(0x100000001b3);
        }
        h = h.rotate_left(17) ^ 0xa5;
    }
    h.to_be_bytes()
}
struct Toy([u8; 4]);
#[derive(Clone, Debug)]
struct ToyPub([u8; 4]);
impl EnrKey for Toy {
    type PublicKey = ToyPub;
    fn sign_v4(&self, msg: &[u8]) -> Result<Vec<u8>, SigningError> {
        Ok(mix(&[&self.0, msg])[..6].to_vec())
    }
    fn public(&self) -> ToyPub {
        ToyPub(self.0)
    }
    fn enr_to_public(content: &BTreeMap<Vec<u8>, bytes::Bytes>) -> Result<ToyPub, alloy_rlp::Error> {
        let raw = content.get(&b"t"[..]).ok_or(alloy_rlp::Error::Custom("no key"))?;
        if raw.len() != 5 || raw[0] != 0x84 {
            return Err(alloy_rlp::Error::Custom("bad key"));
        }
        Ok(ToyPub([raw[1], raw[2], raw[3], raw[4]]))
    }
}
impl EnrPublicKey for ToyPub {
    type Raw = [u8; 4];
    type RawUncompressed = [u8; 4];
    fn verify_v4(&self, msg: &[u8], sig: &[u8]) -> bool {
        sig == &mix(&[&self.0, msg])[..6]
    }
    fn encode(&self) -> [u8; 4] {
        self.0
    }
    fn encode_uncompressed(&self) -> [u8; 4] {
        self.0
    }
    fn enr_key(&self) -> Vec<u8> {
        b"t".to_vec()
    }
}

fn check_node_id(b: &[u8; 32]) -> Result<(), String> {
    let a = NodeId::new(b);
    let c: NodeId = NodeId::from(*b);
    let d = NodeId::parse(b).map_err(|e| format!("parse(32 bytes) failed: {e}"))?;
    for (n, v) in [("new", a), ("from", c), ("parse", d)] {
        if v.raw() != *b || v.as_ref() != &b[..] || !(v == *b) || v != a {
            return Err(format!("{n}: accessors / equality do not return the 32 bytes"));
        }
    }
    let dbg = format!("{a:?}");
    if dbg != format!("0x{}", hex(b)) {
        return Err(format!("Debug prints {dbg:?}, expected 0x + 64 hex digits"));
    }
    let disp = format!("{a}");
    if disp != format!("0x{}..{}", hex(&b[..2]), hex(&b[30..])) {
        return Err(format!("Display prints {disp:?}"));
    }
    if format!("{a:#?}") != dbg || format!("{:?}", Some(a)) != format!("Some({dbg})") {
        return Err("Debug with flags / inside Option differs".into());
    }
    let mut o = *b;
    o[7] ^= 0x40;
    if a == o || a == NodeId::new(&o) || !(a != o) {
        return Err("equal to a different value".into());
    }
    Ok(())
}
fn check_slice(s: &[u8]) -> Result<(), String> {
    match (NodeId::parse(s), s.len() == 32) {
        (Ok(id), true) if id.raw()[..] == *s => Ok(()),
        (Err(_), false) => Ok(()),
        (r, _) => Err(format!("parse of a {}-byte slice gives {:?}", s.len(), r.map(|i| hex(&i.raw())))),
    }
}
fn check_record(seed: &[u8]) -> Result<(), String> {
    let mut r = Rng(u64::from_be_bytes(mix(&[seed])));
    let key = Toy([seed.first().copied().unwrap_or(1), 2, 3, 4]);
    let mut b = Enr::<Toy>::builder();
    b.seq(r.next() >> (r.next() % 64));
    if r.next() % 2 == 0 {
        b.udp4(r.next() as u16);
    }
    if r.next() % 2 == 0 {
        b.ip4([10, 0, 0, r.next() as u8].into());
    }
    let n = (r.next() % 60) as usize;
    b.add_value("x", &r.bytes(n));
    let e = b.build(&key).map_err(|e| format!("build: {e:?}"))?;
    let enc = alloy_rlp::encode(&e);
    let want = format!("enr:{}", b64(&enc));
    if e.to_base64() != want || format!("{e}") != want {
        return Err(format!("text form {:?} is not enr: + base64url of the encoding", e.to_base64()));
    }
    for t in [want.clone(), want[4..].to_string()] {
        let p: Enr<Toy> = t.parse().map_err(|x| format!("own text form does not parse: {x}"))?;
        if p != e || alloy_rlp::encode(&p) != enc || p.to_base64() != want {
            return Err("parsing the text form gives another record".into());
        }
    }
    for bad in [format!("{want}="), format!(" {want}"), format!("{want}A"), want.replace('-', "+")] {
        if bad != want && bad.parse::<Enr<Toy>>().is_ok() {
            return Err(format!("a non-canonical text is accepted: {bad:?}"));
        }
    }
    let _ = format!("{e:?} {e:#?} {e:.400} {e:>400} {:?} {}", e.node_id(), e.node_id());
    if !format!("{e:?}").contains(&format!("0x{}", hex(&e.node_id().raw()))) {
        return Err("the record's Debug form does not show the node id as 0x + 64 hex digits".into());
    }
    Ok(())
}

fn run_case(kind: &str, data: &[u8]) -> Result<(), String> {
    let r = catch_unwind(AssertUnwindSafe(|| match kind {
        "id" => {
            let mut a = [0u8; 32];
            a.copy_from_slice(&data[..32]);
            check_node_id(&a)
        }
        "slice" => check_slice(data),
        _ => check_record(data),
    }));
    match r {
        Ok(x) => x,
        Err(p) => Err(format!("panic: {}", p.downcast_ref::<String>().cloned().or_else(|| p.downcast_ref::<&str>().map(|s| s.to_string())).unwrap_or_default())),
    }
}

fn main() {
    let args: Vec<String> = std::env::args().skip(1).collect();
    if args.len() < 2 {
        eprintln!("usage: noserde <ID> quick|thorough | <ID> --replay <file>");
        std::process::exit(2);
    }
    std::panic::set_hook(Box::new(|_| {}));
    let id = args[0].as_str();
    let dir = std::env::var("VERIF_DIR").unwrap_or_else(|_| "/verif".into());
    if args[1] == "--replay" {
        let line = std::fs::read_to_string(&args[2]).unwrap_or_default();
        if !line.starts_with("noserde ") {
            println!("replay: not a case of the serde-less configuration");
            std::process::exit(0);
        }
        let mut it = line.split_whitespace().skip(1);
        let (kind, h) = (it.next().unwrap_or(""), it.next().unwrap_or(""));
        match run_case(kind, &unhex(h)) {
            Ok(()) => {
                println!("replay: property {id} holds on {} (configuration without serde)", args[2]);
                std::process::exit(0)
            }
            Err(m) => {
                println!("violation detail: [configuration without serde] {m}");
                println!("VIOLATION property={id} replay={}", args[2]);
                std::process::exit(1)
            }
        }
    }
    let seed: u64 = std::env::var("VERIF_SEED").ok().and_then(|s| s.trim().parse().ok()).unwrap_or(0x454e52);
    let n = if args[1] == "thorough" { 200_000 } else { 20_000 };
    let mut rng = Rng(seed ^ 0x6e6f7365726465);
    let mut cases: Vec<(&str, Vec<u8>)> = Vec::new();
    if id == "C16" {
        for v in [0u8, 1, 0x7f, 0x80, 0xff, 0x0f, 0xf0, 0xaa] {
            cases.push(("id", vec![v; 32]));
        }
        for i in 0..32 {
            let mut a = vec![0u8; 32];
            a[i] = 0xff;
            cases.push(("id", a));
        }
        for l in 0..=64 {
            cases.push(("slice", rng.bytes(l)));
        }
        for _ in 0..n {
            cases.push(("id", rng.bytes(32)));
        }
    } else {
        for i in 0..(n / 20) {
            let mut s = rng.bytes(8);
            s[0] = i as u8;
            cases.push(("record", s));
        }
    }
    let total = cases.len();
    for (kind, data) in cases {
        if let Err(m) = run_case(kind, &data) {
            let path = format!("{dir}/replays/{id}-noserde-{}.txt", &hex(&mix(&[&data]))[..12]);
            let _ = std::fs::create_dir_all(format!("{dir}/replays"));
            let _ = std::fs::write(&path, format!("noserde {kind} {}\n", hex(&data)));
            println!("violation detail: [configuration without serde] {m}");
            println!("VIOLATION property={id} replay={path}");
            std::process::exit(1);
        }
    }
    let _ = std::fs::create_dir_all(format!("{dir}/replays"));
    let _ = std::fs::write(
        format!("{dir}/replays/aux-{id}-no-serde.json"),
        format!("{{\"configuration\": \"no-serde: enr with feature verif only, stand-alone program (noserde/)\", \"tier\": \"{}\", \"seed\": {seed}, \"evaluations\": {total}, \"violations\": 0}}", args[1]),
    );
    println!("ok(other configuration) property={id} cases={total} [no-serde: enr with feature verif only, stand-alone program]");
}
